#!/bin/bash
# usage: seed_confirm.sh <worktree-id> <seed-name> <property> -- confirms a sub-agent's change in its scratch worktree and stores it
# under /verif/seeded/<seed-name>/ (patch.diff, demo, meta.json)
set -u
ID=$1; NAME=$2; PROP=$3
WT=/tmp/mut/$ID; OUT=/tmp/mut/$ID-out
export CARGO_TARGET_DIR=$WT/target CARGO_NET_OFFLINE=true
cd $WT || exit 1
git stash -q -u 2>/dev/null; git checkout -q -- . ; git clean -qfd -e target 2>/dev/null
DEMO=$(ls $OUT/demo*.rs 2>/dev/null | head -1)
mkdir -p tests
if [ -n "$DEMO" ]; then cp $DEMO tests/demo.rs; DEMOARGS="--test demo"; else git apply $OUT/demo.diff || exit 1; DEMOARGS="--lib"; fi
# 1. demo passes without the change
cargo test --offline $DEMOARGS > $OUT/confirm_clean.log 2>&1; CLEAN=$?
# 2. apply change: suite passes, demo fails
git apply $OUT/patch.diff || { echo "patch does not apply"; exit 1; }
cargo test --offline --lib > $OUT/confirm_suite.log 2>&1; SUITE=$?
NT=$(grep -o "[0-9]* passed" $OUT/confirm_suite.log | head -1)
cargo test --offline $DEMOARGS > $OUT/confirm_mut.log 2>&1; MUT=$?
echo "demo clean exit=$CLEAN (want 0); suite with change exit=$SUITE ($NT); demo with change exit=$MUT (want !=0)"
if [ $CLEAN -eq 0 ] && [ $SUITE -eq 0 ] && [ $MUT -ne 0 ]; then
  D=/verif/seeded/$NAME; mkdir -p $D
  cp $OUT/patch.diff $D/patch.diff
  [ -n "$DEMO" ] && cp $DEMO $D/demo.rs || cp $OUT/demo.diff $D/demo.diff
  cp $OUT/notes.md $D/notes.md 2>/dev/null
  python3 - "$D" "$PROP" "$NT" <<'PY'
import json,sys
d,prop,nt=sys.argv[1:4]
json.dump({"property":prop,"confirmed":{"demo_without_change":"pass","existing_suite_with_change":"pass (%s)"%nt,"demo_with_change":"fail"},
  "ran":["cargo test --offline --test demo (clean)","cargo test --offline --lib (with change)","cargo test --offline --test demo (with change)"],
  "needs":"see notes.md","detected_by":None}, open(d+"/meta.json","w"), indent=1)
PY
  echo "stored $D"
else
  echo "NOT confirmed"; tail -5 $OUT/confirm_clean.log $OUT/confirm_mut.log | cut -c1-300
fi
