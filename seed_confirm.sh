#!/bin/bash
# usage: seed_confirm.sh <worktree-id> <seed-name> <property> -- confirms a sub-agent's change in its scratch worktree and stores it
# under /verif/seeded/<seed-name>/ (patch.diff, demo, meta.json)
set -u
ID=$1; NAME=$2; PROP=$3
WT=/tmp/mut/$ID; OUT=/tmp/mut/$ID-out
export CARGO_TARGET_DIR=$WT/target CARGO_NET_OFFLINE=true
cd $WT || exit 1
clean() { git checkout -q -- . ; git clean -qfd -e target 2>/dev/null; }
clean
DEMO=$(ls $OUT/demo*.rs 2>/dev/null | head -1)
add_demo() { if [ -n "$DEMO" ]; then mkdir -p tests; cp $DEMO tests/demo.rs; else git apply $OUT/demo.diff || exit 1; fi; }
if [ -n "$DEMO" ]; then DEMOARGS="--test demo"; else DEMOARGS="--lib demo"; fi
# 1. demo passes without the change
add_demo
cargo test --offline $DEMOARGS > $OUT/confirm_clean.log 2>&1; CLEAN=$?
# 2. change only: existing suite passes
clean
git apply $OUT/patch.diff || { echo "patch does not apply"; exit 1; }
cargo test --offline --lib > $OUT/confirm_suite.log 2>&1; SUITE=$?
NT=$(grep -o "[0-9]* passed" $OUT/confirm_suite.log | head -1)
# 3. change + demo: demo fails
add_demo
cargo test --offline $DEMOARGS > $OUT/confirm_mut.log 2>&1; MUT=$?
echo "demo clean exit=$CLEAN (want 0); suite with change exit=$SUITE ($NT); demo with change exit=$MUT (want !=0)"
if [ $CLEAN -eq 0 ] && [ $SUITE -eq 0 ] && [ $MUT -ne 0 ]; then
  D=/verif/seeded/$NAME; mkdir -p $D
  cp $OUT/patch.diff $D/patch.diff
  [ -n "$DEMO" ] && cp $DEMO $D/demo.rs || cp $OUT/demo.diff $D/demo.diff
  cp $OUT/notes.md $D/notes.md 2>/dev/null
  python3 - "$D" "$PROP" "$NT" <<'PY'
import json,sys
d,prop,nt=sys.argv[1:4]
json.dump({"property":prop,"confirmed":{"demo_without_change":"pass","existing_suite_with_change":"pass (%s)"%nt,"demo_with_change":"fail"},
  "ran":["cargo test --offline <demo> (clean)","cargo test --offline --lib (change only)","cargo test --offline <demo> (change + demo)"],
  "needs":"see notes.md","detected_by":None}, open(d+"/meta.json","w"), indent=1)
PY
  echo "stored $D"
else
  echo "NOT confirmed"
fi
