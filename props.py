"""Per-property job tables (harness functions, bounds, options) for quick and thorough tiers."""
from mirsym.check import Job


def pairs(maxlen):
    return [(a, b) for a in range(maxlen + 1) for b in range(maxlen + 1)]


def c06(tier):
    n = 4 if tier == "quick" else 6
    jobs = [Job("h_c06::merge_pair", p, {"hash_order": "fixed"}, budget_s=1500, validate=(40 if tier == "quick" else 60)) for p in pairs(n)]
    return dict(
        jobs=jobs,
        bounds={"len_m": "0..%d" % n, "len_n": "0..%d" % n, "elements": "abstract atoms (JSON integers), duplicate-free per sequence, all cross-sequence equality patterns"},
        assumptions=["elements are JSON numbers (merge_arrays only uses Value equality/clone)"],
        note="utils::merge_arrays executed from MIR; oracle = harness h_c06::merge_pair",
    )


def c16(tier):
    n = 3 if tier == "quick" else 5
    jobs = [Job("h_c16::diff_roundtrip", p, {"hash_order": "fixed"}, budget_s=1500, validate=(30 if tier == "quick" else 50)) for p in pairs(n)]
    return dict(
        jobs=jobs,
        bounds={"len_old": "0..%d" % n, "len_new": "0..%d" % n, "elements": "abstract atoms, repetitions allowed (all equality patterns)"},
        assumptions=["elements are JSON numbers"],
        note="utils::make_diff_patch/apply_diff_patch + yavomrs myers implementation executed from MIR",
    )


PROPS = {"C06": c06, "C16": c16}
