"""Per-property job tables (harness functions, bounds, options) for quick and thorough tiers."""
from mirsym.check import Job


def pairs(maxlen):
    return [(a, b) for a in range(maxlen + 1) for b in range(maxlen + 1)]


def c06(tier):
    n = 4 if tier == "quick" else 6
    jobs = [Job("h_c06::merge_pair", p, {"hash_order": "fixed"}, budget_s=1500, validate=(40 if tier == "quick" else 60)) for p in pairs(n)]
    s2 = [(10, 0), (3, 1)] if tier == "quick" else [(10, 0), (3, 1), (4, 1), (6, 1)]
    for c in s2:
        jobs.append(Job("h_c12::merged_arrays", c, dict(S2), budget_s=3000, validate=30))
    jobs.append(Job("h_c12::nested_arrays", (), dict(S2), budget_s=3000, validate=20))
    jobs.append(Job("h_c12::edit_chains", (), dict(S2), budget_s=3000, validate=30))
    return dict(
        jobs=jobs,
        bounds={"len_m": "0..%d" % n, "len_n": "0..%d" % n, "elements": "abstract atoms (JSON integers), duplicate-free per sequence, all cross-sequence equality patterns",
                "melda level [versions per replica, symbolic ids of inserted elements]": [list(c) for c in s2],
                "edit chains": "each replica submits two array versions in a row (5 x 5 choices each, own new element) before committing; exchange; edit + commit; propagation", "melda-level scenario": "base items=[a,b] more=[c]; each replica submits one of k versions (insert at same position, reorder, move between arrays, remove, create); exchange both ways"},
        assumptions=["elements are JSON numbers (merge_arrays only uses Value equality/clone)"] + S2_ASSUME,
        note="utils::merge_arrays executed from MIR; oracle = harness h_c06::merge_pair",
    )


def c16(tier):
    n = 3 if tier == "quick" else 5
    jobs = [Job("h_c16::diff_roundtrip", p, {"hash_order": "fixed"}, budget_s=1500, validate=(30 if tier == "quick" else 50)) for p in pairs(n)]
    chains = [(7, 3, 0), (7, 3, 1), (3, 4, 0), (3, 4, 2)] if tier == "quick" else [(7, 3, 0), (7, 3, 1), (3, 4, 0), (3, 4, 2), (3, 4, 1), (12, 3, 0), (5, 4, 1), (7, 4, 2)]
    for c in chains:
        jobs.append(Job("h_c04::array_chain", c, dict(S2), budget_s=3000, validate=30))
    jobs.append(Job("h_c04::observer_chain", (7, 2) if tier == "quick" else (7, 3), dict(S2), budget_s=3000, validate=20))
    jobs.append(Job("h_hist::cold_reader_travel", (1,), dict(S2), budget_s=600, validate=10))
    return dict(
        jobs=jobs,
        bounds={"len_old": "0..%d" % n, "len_new": "0..%d" % n, "elements": "abstract atoms, repetitions allowed (all equality patterns)",
                "melda-level chains [element orders, chain length, commit after each version]": [list(c) for c in chains],
                "cache capacities": "MELDA_ARRAYDESCRIPTORS_CACHE_CAP = MELDA_DATA_CACHE_CAP in 1..3 (symbolic)"},
        assumptions=["elements are JSON numbers (kernel) / objects with concrete ids (chains)"] + S2_ASSUME,
        note="utils::make_diff_patch/apply_diff_patch + yavomrs myers implementation executed from MIR",
    )


def c19(tier):
    ml = 2 if tier == "quick" else 3
    depths = [-1, 0, 1] if tier == "quick" else [-1, 0, 1, 2]
    o = {"hash_order": "fixed"}
    jobs = []
    for a in depths:
        for b in depths:
            jobs.append(Job("h_c19::order_pair", (a, b, ml), o, budget_s=1500, validate=25))
    jobs.append(Job("h_c19::order_pair", (2, 2, 1), o, budget_s=1500, validate=25))
    tri = [(0, 0, 0, ml), (1, 1, 0, 1), (1, -2, 0, 1), (-2, -2, -2, 1), (1, 1, 1, 1)]
    if tier != "quick":
        tri += [(-1, -1, -1, 1), (2, 1, 0, 1), (2, 2, 1, 1), (2, -2, 1, 1), (1, 1, 1, 2)]
    for t in tri:
        jobs.append(Job("h_c19::order_triple", t, o, budget_s=1500, validate=25))
    jobs.append(Job("h_c19::print_parse", (1 if tier == "quick" else 2, 2), o, budget_s=1500, validate=25))
    jobs.append(Job("h_c19::digest_pure", (), o, budget_s=600, validate=25))
    return dict(
        jobs=jobs,
        bounds={"derivation_depth": "0..%d (creation + new_updated/new_deleted/new_resolved/loader construction) and parsed revisions with index in [2, 2^32-2]" % max(depths),
                "digest": "symbolic [0-9a-z]{1,%d} incl. the reserved d/r/e" % ml, "tail": "7 hex chars (symbolic)", "triples": [list(t) for t in tri]},
        assumptions=["digest values are lower-case alphanumeric (real digests are hex or d/r/e); objects using the reserved '#' key are outside the claim",
                     "index = u32::MAX is outside the claim (parent.index + 1 overflows by design of the constructors)"],
        note="revision.rs executed from MIR (cmp/eq/hash/fmt/from/new*/is_*), utils::digest_object/digest_string",
    )


def tree_jobs(tier):
    jobs = []
    for n in (0, 1, 2):
        jobs.append(Job("h_tree::tree_rule", (n, 6, 2), {}, budget_s=1500, validate=40))
    jobs.append(Job("h_tree::tree_rule", (3, 8, 0), {}, budget_s=1500, validate=40))
    if tier != "quick":
        jobs.append(Job("h_tree::tree_rule", (3, 8, 1), {}, budget_s=3000, validate=60))
        jobs.append(Job("h_tree::tree_rule", (3, 6, 0), {}, budget_s=3000, validate=60))
    return jobs


TREE_BOUNDS = {"records": "n <= 2 with digests [0-9a-z] and all hash-iteration orders of validate; n = 3 with digests in {a,b,r} (quick: one hash order; "
                          "thorough: forward and reverse hash orders, [0-9a-z] digests)",
               "shapes": "every record is a creation, an update / deletion / resolution marker of any earlier record, an update whose index jumps by 9 (identifiers with indices >= 10, where numeric and "
                         "textual order disagree), or the child of an unrecorded (dangling) parent of index 1 or 2",
               "orders": "every order of learning through add(); the opposite order through unvalidated_add()+validate(); one re-delivery"}
TREE_ASSUME = ["revisions are built with the crate's own constructors (index = parent index + 1, or + 9 for the compressed long history); one-character digests"]


def c05(tier):
    jobs = tree_jobs(tier)
    # Melda level: in_conflict / get_conflicting / get_winner agree with each other (asserted by the shared state() helper in every
    # Melda-level harness); two live leaves with the same content digest
    jobs.append(Job("h_c07::same_digest_leaves", (), dict(S2), budget_s=600, validate=4))
    jobs.append(Job("h_c07::resolve_three", (), dict(S2), budget_s=3000, validate=10))
    return dict(jobs=jobs, bounds=TREE_BOUNDS, assumptions=TREE_ASSUME,
                note="revisiontree.rs (add/unvalidated_add/validate/is_valid_cached/get_leafs/get_winner) + revision.rs from MIR; oracle h_tree::check_against_spec")


def c15(tier):
    jobs = []
    combos = [(0, 6, 1), (1, 6, 1), (1, 6, 2), (2, 8, 1)] if tier == "quick" else [(0, 6, 1), (0, 6, 2), (1, 6, 1), (1, 6, 2), (2, 6, 1), (2, 8, 1)]
    for c in combos:
        jobs.append(Job("h_tree::tree_stage", c, {}, budget_s=3000, validate=40))
    s2 = [(4, 1, 0), (4, 1, 1)] if tier == "quick" else [(4, 1, 0), (4, 2, 0), (4, 1, 1), (6, 2, 1)]
    for c in s2:
        jobs.append(Job("h_c15::stage_roundtrip", c, dict(S2), budget_s=3000, validate=30))
    # two staged operations (chains of revisions of one object) with one reversed hash iteration (order of exported records)
    jobs.append(Job("h_c15::stage_roundtrip", (4, 2, 0), dict(S2, hash_order="two", nd_budget=1), budget_s=3000, validate=20, native_repeats=3))
    return dict(jobs=jobs, bounds={"tree level [committed, digest class, staged]": [list(c) for c in combos],
                                   "melda level [doc orders, staged ops, object conflict present]": [list(c) for c in s2],
                                   "staged ops": "update to a symbolic document, delete_object (payload-free stage), reorder + value change"},
                assumptions=TREE_ASSUME + S2_ASSUME,
                note="revisiontree.rs + melda.rs (stage / unstage / replay_stage / commit / guards) + datastorage.rs from MIR")


def c03(tier):
    combos = [(0, 1), (1, 1), (1, 2), (2, 1)] if tier == "quick" else [(0, 1), (1, 1), (1, 2), (1, 3), (2, 1), (2, 2)]
    jobs = [Job("h_pack::pack_roundtrip", c, {"hash_order": "two"}, budget_s=3000, validate=40) for c in combos]
    s2 = [(4, 1, 0), (4, 2, 0), (4, 2, 1)] if tier == "quick" else [(4, 1, 0), (4, 2, 0), (4, 2, 1), (6, 3, 0), (8, 2, 1), (12, 1, 1)]
    for c in s2:
        jobs.append(Job("h_c03::commit_reopen", c, dict(S2), budget_s=3000, validate=30))
    # commit while array conflicts are pending (automatic resolution), then reopen: scenario shared with C12
    jobs.append(Job("h_c12::maintenance", (10, 0), dict(S2), budget_s=3000, validate=20))
    # documents with id-only (empty) elements and anonymous sub-objects, committed and reopened (job shared with C04)
    jobs.append(Job("h_c04::update_read", (3, 0, 1, 1), dict(S2), budget_s=3000, validate=20))
    # two staged objects sharing one payload, one of them removed again before the commit
    jobs.append(Job("h_c03::shared_payload", (), dict(S2), budget_s=600, validate=8))
    return dict(jobs=jobs,
                bounds={"objects per pack": "0..%d" % max(c[0] for c in combos), "symbolic string length": "0..%d" % max(c[1] for c in combos),
                        "string alphabet": "{ } [ ] , : \" \\ a (each byte symbolic); skeletons: flat object, symbolic key, nested object, array descriptor with non-ASCII literal, patch descriptor",
                        "combos [objects, maxlen]": [list(c) for c in combos],
                        "melda level [doc orders, staged updates before the commit, earlier commit present]": [list(c) for c in s2]},
                assumptions=["floats are outside the claim"] + S2_ASSUME,
                note="datastorage.rs + memoryadapter.rs from MIR; serde_json serialiser/parser modelled")


S2 = {"hash_order": "fixed", "par_order": "fixed", "digest_len": 16}
S2_ASSUME = ["single client thread; rayon par_iter bodies run sequentially in one canonical order unless stated otherwise",
             "hash tables iterate in one canonical order unless stated otherwise",
             "SHA-256 digests of symbolic content are abstracted to 16 (instead of 64) symbolic hex characters"]


def c04(tier):
    combos = [(0, 4, 1, 0), (0, 4, 1, 1), (1, 0, 1, 1), (2, 0, 2, 0), (2, 0, 2, 1), (3, 0, 1, 0), (3, 0, 1, 1), (4, 0, 0, 0), (4, 0, 1, 1), (3, 0, 1, 2), (0, 4, 1, 2)]
    if tier != "quick":
        combos += [(0, 7, 1, 1), (0, 4, 2, 0), (1, 0, 1, 0), (0, 12, 1, 0), (2, 0, 2, 2)]
    jobs = [Job("h_c04::update_read", c, dict(S2), budget_s=3000, validate=30) for c in combos]
    jobs.append(Job("h_c12::update_in_conflict", (6 if tier == "quick" else 10,), dict(S2), budget_s=3000, validate=30))
    jobs.append(Job("h_c04::resubmit_in_conflict", (), dict(S2), budget_s=3000, validate=10))
    return dict(jobs=jobs,
                bounds={"combos [variant, element orders, prior documents, 1 = commit after each prior document / 2 = discard the uncommitted prior documents with unstage]": [list(c) for c in combos],
                        "variant 0": "element order of items♭ x membership of a second flattened array (objects move between arrays)",
                        "variant 1": "flattened object / '^'-prefixed string meta♭ and flattened string s♭ (symbolic printable char) appear, disappear, change kind",
                        "variant 2": "flattened key more♭ changes kind: absent / array / empty array / number / string / object",
                        "variant 3": "sibling array elements carrying anonymous (id-less) objects under the same flattened key, equal or different (symbolic) content"},
                assumptions=S2_ASSUME + ["documents are well formed in the sense of the property (unique string ids not starting with '^', no '#' key)"],
                note="utils::flatten/unflatten + melda.rs update / update_object / delete_object / create_object / read / commit from MIR")


def c02(tier):
    combos = [(0, 6, 0), (1, 2, 0)] if tier == "quick" else [(0, 6, 0), (0, 12, 0), (1, 2, 0), (1, 2, 1)]
    jobs = [Job("h_c02::delivery", c, dict(S2), budget_s=4000, validate=30) for c in combos]
    jobs.append(Job("h_c02::dedup_across_packs", (), dict(S2), budget_s=600, validate=1))
    jobs.append(Job("h_c02::own_pack_required", (), dict(S2), budget_s=600, validate=10))
    jobs.append(Job("h_c02::dedup_update", (), dict(S2), budget_s=600, validate=1))
    jobs.append(Job("h_c02::foreign_stage_block", (), dict(S2), budget_s=600, validate=4))
    return dict(jobs=jobs, bounds={"own pack": "a block whose only object is also stored in another replica's pack (symbolic value): visible exactly when block and its own pack are both delivered, either order", "dedup scenario": "a parentless block whose pack omits an object that is stored only in the pack of another, held-back block (one concrete scenario)", "history 0": "c1 <- c2 (2 blocks + 2 packs): all 24 delivery orders of the 4 files, second document among k orders with a symbolic value",
                                   "history 1": "c1 <- cA, c1 <- cB, {cA,cB} <- cM with c1 pre-delivered: all 720 delivery orders of the remaining 6 files",
                                   "after every delivered file": "refresh; state == recorded state of exactly the causally complete blocks; state == Melda::new on the same storage",
                                   "combos [history, k, symbolic value]": [list(c) for c in combos]},
                assumptions=S2_ASSUME + ["the oracle maps each causally closed set of blocks to the state the source replicas showed when exactly those blocks were applied"],
                note="melda.rs refresh / reload / check_delta / mark_valid_deltas / apply_delta / load_raw_delta, datastorage.rs refresh / reload from MIR")


def c09(tier):
    jobs = [Job("h_c09::commit_faults", (4, 1), dict(S2), budget_s=3000, validate=30),
            Job("h_c09::commit_faults", (4, 2), dict(S2), budget_s=3000, validate=30),
            Job("h_c09::meld_faults", (4,), dict(S2), budget_s=3000, validate=30)]
    if tier != "quick":
        jobs += [Job("h_c09::commit_faults", (8, 2), dict(S2), budget_s=3000, validate=30), Job("h_c09::meld_faults", (8,), dict(S2), budget_s=3000, validate=30)]
    return dict(jobs=jobs, bounds={"commit": "second commit of a replica (document among k orders, one symbolic value); 1 or 2 injected failures among its write calls incl. the same write failing again on the retry; every write boundary reopened",
                                   "meld": "two commits melded into a replica holding the base; 1 or 2 of the 4 copy writes fail; refresh; every write boundary reopened; meld repeated"},
                assumptions=S2_ASSUME + ["each item write is atomic (fully present or absent): the fault-injecting backend wraps the real MemoryAdapter",
                                         "'same durable result' compares documents, values and conflict sets, not block identifiers"],
                note="melda.rs commit / meld / refresh / reload, datastorage.rs pack from MIR; harness-side FaultAdapter implements melda::adapter::Adapter")


def c11(tier):
    combos = [(3, 0), (3, 1)] if tier == "quick" else [(3, 0), (3, 1), (6, 1), (12, 0)]
    jobs = [Job("h_c11::content_addressed", c, dict(S2, digest_len=64), budget_s=3000, validate=30) for c in combos]
    # the order in which commit collects change records from hash tables may be reversed at one point per path (history up to the first meld)
    jobs.append(Job("h_c11::content_addressed", (3, 0, 1), dict(S2, digest_len=64, hash_order="two", nd_budget=1), budget_s=3000, validate=20, native_repeats=3))
    jobs.append(Job("h_pack::pack_roundtrip", (1, 1), {"hash_order": "two"}, budget_s=3000, validate=20))
    # a block holding an update record whose digest equals its parent's (identical consecutive edit scripts), melded and relayed
    jobs.append(Job("h_c11::identical_scripts_meld", (), dict(S2, digest_len=64), budget_s=600, validate=2))
    return dict(jobs=jobs, bounds={"history": "a: commit (metadata with non-ASCII text, a symbolic printable char, nested containers, escapes, empty object, 13-digit integer), commit with empty-object metadata; "
                                              "b melds + refreshes, commits, a melds back; then unstage / refresh / reload / reads",
                                   "checked after every step on both storages": "every key = digest(bytes) (+ index = 1 + max parent index for blocks); key set only grows; bytes of existing keys unchanged; "
                                                                                  "shared keys byte-identical; replicas with the same history hold identical items",
                                   "combos [k, symbolic values]": [list(c) for c in combos]},
                assumptions=[a for a in S2_ASSUME if "abstracted to 16" not in a] + ["floats in commit metadata are outside the claim (number formatting not modelled)",
                                                                                      "memory backend only"],
                note="melda.rs commit / meld / load_raw_delta / Delta::to_json_string / DeltaId, datastorage.rs pack, memoryadapter.rs from MIR")


def c17(tier):
    combos = [(1, 0), (2, 0), (2, 1)]
    jobs = [Job("h_c11::adapter_contract", c, {"hash_order": "fixed"}, budget_s=3000, validate=40) for c in combos]
    # directory backend over the file-system model, Deflate wrapper over memory / directory (codec abstracted)
    more = [(0, 1, 5), (1, 1, 5), (2, 1, 5), (1, 2, 5, 2), (0, 2, 4, 2)] if tier == "quick" else [(0, 1, 5), (1, 1, 5), (2, 1, 5), (1, 2, 5), (0, 2, 5, 2), (2, 2, 4, 2), (0, 2, 4)]
    for c in more:
        jobs.append(Job("h_c17::backend_contract", c, {"hash_order": "fixed"}, budget_s=3000, validate=30))
    return dict(jobs=jobs, bounds={"operations": "1..2 writes (the later one may hit an existing key) with symbolic keys <word{1,2}>[.delta|.pack|.delta.delta] and symbolic contents of 0..3 printable bytes; whole reads; "
                                                 "one ranged read with symbolic offset 0..4 and length 1..4; read of a missing key; listing by '', '.delta', '.pack'",
                                   "backends": "MemoryAdapter directly and through the Arc<RwLock<Box<dyn Adapter>>> wrapper (adapter.rs); FilesystemAdapter over an ideal in-memory file-system model incl. a second instance on the "
                                               "same directory; Flate2Adapter over MemoryAdapter and over FilesystemAdapter with the Deflate codec abstracted to an invertible framing",
                                   "combos [writes, through wrapper]": [list(c) for c in combos],
                                   "other backends [backend 0 = directory / 1 = Deflate+memory / 2 = Deflate+directory, writes, key suffix kinds (5 adds '.flate'), longest key stem]": [list(c) for c in more],
                                   "keys of the other backends": "<word{2,3}>[.delta|.pack|.delta.delta|.flate] (the directory backend shards by the first two bytes of the key; shorter keys are outside the claim)"},
                assumptions=["the file system is ideal: operations are atomic and fail only for logical reasons (missing file / directory, read past the end); permissions, disk-full, interrupted writes, case-insensitive or "
                             "normalising file systems and concurrent processes are outside the claim",
                             "Deflate is abstracted to an invertible framing (compress(x) = marker ++ x; a stream without the marker fails to decode): the compression algorithm itself is not executed",
                             "out-of-range ranged reads through the Deflate wrapper are outside the claim (the contract promises in-range slices only)",
                             "the SQLite and Solid backends and the Brotli codec are not in the default build and sit behind FFI / network: not applicable to this technique (stated N/A part)"],
                note="memoryadapter.rs, adapter.rs (impl Adapter for DynAdapter), filesystemadapter.rs, flate2adapter.rs from MIR; std::fs / std::path / std::io and flate2 replaced by models (mirsym/models_fs.py); reference model in the harness")


def c18(tier):
    base = dict(S2)
    jobs = [Job("h_c18::independent", (3, 1, 0), dict(base, nd_budget=1), budget_s=3000, validate=20, native_repeats=3),
            Job("h_c18::independent", (3, 0, 0), dict(base, nd_budget=1), budget_s=3000, validate=20, native_repeats=3)]
    if tier != "quick":
        jobs += [Job("h_c18::independent", (2, 1, 0), dict(base, nd_budget=2), budget_s=3000, validate=20, native_repeats=3)]
    jobs += [Job("h_tree::tree_rule", (2, 6, 2), {}, budget_s=1500, validate=20)]
    # warm vs cold caches with symbolic capacities 1..3: an observer that read earlier receives several versions at once
    jobs.append(Job("h_c04::observer_chain", (7, 2), dict(S2), budget_s=3000, validate=20))
    # three concurrent inserts at one array position, learnt in any order, with 1 (thorough: 2) reversed hash iterations
    jobs.append(Job("h_c18::three_way", (), dict(S2, nd_budget=1 if tier == "quick" else 2), budget_s=3000, validate=20, native_repeats=3))
    # identical payloads stored by two writers, relayed through a replica with either listing order
    jobs.append(Job("h_c18::relay_duplicates", (0,), dict(S2), budget_s=600, validate=4))
    jobs.append(Job("h_c18::relay_duplicates", (1,), dict(S2), budget_s=600, validate=4))
    return dict(jobs=jobs, bounds={"history": "commit, commit (second document among k orders, optionally staged-discarded-restaged), concurrent commit on a second replica, exchange, reopen",
                                   "compared": "a run with canonical orders and default caches vs a run in which at most nd_budget iteration events (hash-table iterations, visits of the sequentialised worker pool) "
                                               "use the reverse order, the storage lists in reverse order, and both cache capacities are a symbolic value in 1..3",
                                   "tree level": "validate() under all hash-iteration orders for n <= 2 records (job shared with C05)",
                                   "jobs [k, reversed listing, symbolic values] / nd_budget": [[list(j.params), j.opts.get("nd_budget")] for j in jobs if j.harness.startswith("h_c18")]},
                assumptions=[a for a in S2_ASSUME if "canonical order" not in a] + [
                    "bounded deviation: only schedules with at most nd_budget non-canonical iteration events are explored; the deviation is forward vs reverse order",
                    "worker-pool sizes 1..16 and real parallel schedules are not applicable to this technique (sequential executor)",
                    "block and pack identifiers are excluded from the comparison (block bytes may legitimately depend on hash order)"],
                note="whole melda.rs / datastorage.rs / revisiontree.rs operation set from MIR")


def c01(tier):
    jobs = tree_jobs(tier)[:4]
    conv = [(3, 2), (3, 3)] if tier == "quick" else [(3, 2), (3, 3), (6, 3)]
    for c in conv:
        jobs.append(Job("h_c18::converge", c, dict(S2), budget_s=6000, validate=30))
    jobs.append(Job("h_c02::delivery", (0, 6, 0), dict(S2), budget_s=4000, validate=20))
    jobs.append(Job("h_c18::concurrent_creations", (12 if tier != "quick" else 8,), dict(S2), budget_s=3000, validate=30))
    jobs.append(Job("h_c02::copy_then_meld", (12 if tier != "quick" else 4,), dict(S2), budget_s=3000, validate=30))
    # half-copied pack seen by one refresh, complete at the next (job shared with C10)
    jobs.append(Job("h_c10::repaired_damage", (), dict(S2), budget_s=3000, validate=4))
    return dict(jobs=jobs, bounds={"concurrent creations": "both replicas submit one of k documents with equal element contents, so that identical revisions occur in two different blocks",
                                   "tree level": TREE_BOUNDS,
                                   "melda level [k orders, operations]": [list(c) for c in conv],
                                   "operations": "symbolic sequence over {a.update, b.update, a.commit (+ reopen comparison), b.commit, a.pull(b), b.pull(a), a.unstage, a.delete_object, a.stage_full_snapshot, "
                                                 "a.resolve_as(first conflict, winner), a.reload} after a shared base; then unstage, exchange until nothing new, "
                                                 "compare a, b, a replica fed by plain file copy in reverse listing order with refreshes at symbolic points, and a replica opened by one reload",
                                   "file-copy route": "all delivery orders of a 2-commit history (job shared with C02)",
                                   "mixed route": "any subset of the 4 files of a 2-commit history copied in any order with a refresh after each, the rest melded; second meld transfers nothing; storages hold the same items"},
                assumptions=TREE_ASSUME + S2_ASSUME + ["two writers; time travel inside the history is covered by C14, resolutions by C07"],
                note="revisiontree.rs / revision.rs + melda.rs meld / refresh / reload / apply_delta / commit from MIR")


def c12(tier):
    combos = [(10, 0), (2, 1)] if tier == "quick" else [(10, 0), (2, 1), (3, 1)]
    jobs = [Job("h_c12::maintenance", c, dict(S2), budget_s=3000, validate=30) for c in combos]
    # the same with object / descriptor caches of capacity 1: after commit the values come from storage through the pack index
    jobs.append(Job("h_c12::maintenance", (10, 0, 1), dict(S2), budget_s=3000, validate=20))
    # the removal of an array wins on its descriptor while the winning owner still references the array
    jobs.append(Job("h_c12::dropped_array_wins", (), dict(S2), budget_s=3000, validate=20))
    return dict(jobs=jobs, bounds={"state": "two replicas after concurrent array edits (k versions each, incl. inserts at the same position, moves between arrays, removals) and exchange: array and object conflicts pending",
                                   "operations": "meld without refresh; idle refresh + reload; stage_full_snapshot (+ commit, reopen); user edit + commit with automatic array resolution (+ reopen); idle commit",
                                   "combos [versions, symbolic ids of inserted elements]": [list(c) for c in combos]},
                assumptions=S2_ASSUME, note="melda.rs commit / resolve_as / read_object_at_revision / get_merged_order_at_revision / stage_full_snapshot / meld / refresh / reload from MIR")


def c13(tier):
    combos = [(4, 0)] if tier == "quick" else [(4, 0), (4, 1), (8, 0)]
    jobs = [Job("h_hist::commit_graph", c, dict(S2), budget_s=3000, validate=30) for c in combos]
    jobs.append(Job("h_hist::meld_after_travel", (4 if tier == "quick" else 8,), dict(S2), budget_s=3000, validate=20))
    # a stored block whose parent list holds an entry that is not a block identifier never joins the graph (job shared with C10)
    jobs.append(Job("h_c10::crafted_block", (), dict(S2), budget_s=600, validate=3))
    return dict(jobs=jobs, bounds={"history": "c1 <- cA (replica a), c1 <- cB (replica b), merge commit {cA,cB} <- cM, cM <- c5; documents among the first k element orders; commit metadata with a symbolic printable char, nested object, empty object and None",
                                   "combos [k, symbolic values]": [list(c) for c in combos],
                                   "meld after travel": "time travel to any block, then meld of a block committed elsewhere on the latest heads, refresh: heads ancestor-free, equal to a reopened replica"},
                assumptions=S2_ASSUME, note="melda.rs commit / get_anchors / get_delta / load_raw_delta / reload_until / DeltaId from MIR")


def c14(tier):
    combos = [(4, 0)] if tier == "quick" else [(4, 0), (8, 0)]
    jobs = [Job("h_hist::time_travel", c, dict(S2), budget_s=3000, validate=30) for c in combos]
    jobs.append(Job("h_hist::time_travel_rounds", (2 if tier == "quick" else 4,), dict(S2), budget_s=3000, validate=5))
    # a reader opened cold on a chain of 5 array versions travels to two earlier points in a row (default / symbolic cache capacities)
    jobs.append(Job("h_hist::cold_reader_travel", (0,), dict(S2), budget_s=600, validate=10))
    jobs.append(Job("h_hist::cold_reader_travel", (1,), dict(S2), budget_s=600, validate=10))
    return dict(jobs=jobs, bounds={"history": "as C13 (5 blocks, one concurrent pair, one merge commit); every head set replica a ever had (single heads and the two-head set after the merge) is travelled to",
                                   "combos [k, symbolic values]": [list(c) for c in combos]},
                assumptions=S2_ASSUME, note="melda.rs reload_until / new_until / reload / get_value / get_parent_revision from MIR")


def c07(tier):
    jobs = [Job("h_c07::resolve_object", (0,), dict(S2), budget_s=3000, validate=30),
            Job("h_c07::resolve_object", (2,), dict(S2), budget_s=3000, validate=30),
            Job("h_c07::resolve_both", (), dict(S2), budget_s=3000, validate=30),
            Job("h_c07::resolve_three", (), dict(S2), budget_s=3000, validate=30),
            Job("h_c12::resolve_array_conflict", (10,), dict(S2), budget_s=3000, validate=30),
            Job("h_c07::same_digest_leaves", (), dict(S2), budget_s=600, validate=4)]
    return dict(jobs=jobs, bounds={"scenario": "base [a,b]; each replica concurrently updates a to a symbolic value or deletes it; exchange; every live leaf chosen; commit; propagate / independent resolutions on both replicas"},
                assumptions=S2_ASSUME, note="melda.rs resolve_as / update_object / delete_object / get_* / read / commit / meld / refresh from MIR")


def c08(tier):
    jobs = [Job("h_c08::commit_with_array_conflict", (6, 0), dict(S2), budget_s=3000, validate=30, native_timeout=10)]
    for kind in range(8):
        jobs.append(Job("h_c08::all_operations", (kind, 4 if tier == "quick" else 8), dict(S2), budget_s=3000, validate=10, native_timeout=10))
    if tier != "quick":
        jobs.append(Job("h_c08::commit_with_array_conflict", (10, 0), dict(S2), budget_s=6000, validate=30, native_timeout=10))
    return dict(jobs=jobs, bounds={"scenario": "base document, two replicas, one concurrent edit each (documents chosen among 6 / 10 element orders), exchange, further edit, commit, then stage / snapshot / unstage / refresh / reload / getters",
                                   "all_operations": "every public operation (read with and without root, get_value / get_winner / get_conflicting / get_parent_revision per object, in_conflict, has_staging, get_anchors, get_delta, "
                                                     "stage, meld, stage_full_snapshot, replay_stage, reload, update, delete_object, commit, unstage, refresh) in eight kinds of state: empty, staged (with deletions), committed with a "
                                                     "deleted object, object + array conflicts pending, the same with staged resolutions, after time travel, array dropped on one replica and edited on the other, "
                                                     "a block held back in storage across two refreshes"},
                assumptions=["single client thread; worker-pool sizes and real rayon interleavings are not modelled (sequentialised par_iter)",
                             "a lock re-acquired by the thread that holds it is reported as non-termination (std Mutex/RwLock are not re-entrant)"],
                note="melda.rs operations from MIR with the lock model")


def c10(tier):
    jobs = [Job("h_c10::junk_item", (11,), dict(S2), budget_s=3000, validate=40),
            Job("h_c10::damaged_item", (), dict(S2), budget_s=3000, validate=40),
            Job("h_c10::damaged_merge", (), dict(S2), budget_s=3000, validate=16),
            Job("h_c10::live_damage", (), dict(S2), budget_s=3000, validate=3),
            Job("h_c10::live_read_damage", (), dict(S2), budget_s=3000, validate=20),
            Job("h_c10::repaired_damage", (), dict(S2), budget_s=3000, validate=4),
            Job("h_c10::crafted_block", (), dict(S2), budget_s=600, validate=3)]
    return dict(jobs=jobs, bounds={"history": "one replica, two commits (2 blocks + 2 packs)",
                                   "junk": "names <digits{1..11}>-<word{1,2}>.delta, <word{1..3}>.delta/.pack, revision-like names; content <= 2 symbolic bytes",
                                   "repaired": "a pack first seen truncated / with one wrong byte (with or without its block), complete at a later refresh: live replica = reopened replica = full state", "re-read": "every byte position of the first pack replaced by any other byte after a live replica (object cache capacity 1) has read all objects; every object read again", "damage": "any one of the 4 items removed, emptied, truncated by one byte or to half, or one byte (first/middle/last) replaced by any different byte"},
                assumptions=S2_ASSUME + ["hash collisions are assumed away (injective digest model)", "single fault per run"],
                note="melda.rs reload / fetch_raw_delta / load_raw_delta / check_delta, datastorage.rs try_load_pack / read_raw_value from MIR")


PROPS = {"C01": c01, "C18": c18, "C02": c02, "C11": c11, "C17": c17, "C09": c09, "C04": c04, "C12": c12, "C13": c13, "C14": c14, "C07": c07, "C10": c10, "C08": c08, "C03": c03, "C06": c06, "C16": c16, "C19": c19, "C05": c05, "C15": c15}
