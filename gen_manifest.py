"""Regenerates MANIFEST.json from the claimed-property table below."""
import json, subprocess
props = {l['id']: l for l in map(json.loads, open('/verif/properties.jsonl'))}
hook_commits = subprocess.run(['git', '-C', '/repo', 'log', '--format=%H %s'], capture_output=True, text=True).stdout.strip().split('\n')
hook_commits = [l.split()[0] for l in hook_commits if 'verif hook' in l]

TECH = "bounded symbolic execution of rustc MIR (mirsym) with z3; forks decided by the solver; counterexamples replayed natively"
NOTE = ("Trusted base: rustc nightly MIR dump of /repo's working tree, the mirsym interpreter and its library models (std containers, serde_json, "
        "regex, locks; SHA-256 as an injective uninterpreted function on symbolic content), z3. Every reported violation is reproduced on the "
        "natively compiled crate first; a sample of passing paths is re-run natively and must agree. Nothing is claimed outside the stated bounds.")

CLAIMED = {
    "C06": ("utils::merge_arrays, the kernel of concurrent array merging: for ALL pairs of duplicate-free sequences up to length 4 (quick) / 6 (thorough) "
            "over an unbounded element domain, every feasible path of the real MIR satisfies no-loss / no-duplication / nothing-invented / order clauses. "
            "One symbolic path stands for every concrete input with that equality pattern.", "DESIGN.md §5 C06"),
    "C16": ("utils::make_diff_patch + apply_diff_patch (incl. the yavomrs Myers implementation) executed from MIR: for ALL pairs of arrays with repetitions "
            "up to length 3 (quick) / 5 (thorough) the patched array equals the submitted one and the patch is empty iff nothing changed.", "DESIGN.md §5 C16"),
}
CLAIMED.update({
    "C05": ("RevisionTree (add / unvalidated_add / validate / is_valid_cached / get_leafs / get_winner) and Revision order executed from MIR: for ALL sets of up to 3 "
            "(thorough 4) change records of every shape (creations, updates, deletions, resolution markers, dangling parents, duplicates), symbolic digests, every order "
            "of learning and the explored hash-iteration orders, leaves and winner equal the stated rule evaluated by an independent oracle. Tree level only; the "
            "Melda-level getters are not yet covered.", "DESIGN.md §5 C05"),
    "C15": ("Kernel part: RevisionTree staging. For ALL trees of up to 2 committed + 2 staged records (shapes and digests symbolic) unstage() restores exactly the "
            "committed entries, leaves and winner; commit() clears every staged flag and changes nothing else. Melda-level stage/replay/guards not yet covered.", "DESIGN.md §5 C15"),
    "C19": ("revision.rs executed from MIR on symbolic system-producible revisions (derivation depth <= 1, thorough 2; parsed revisions with index over the whole u32 "
            "range): cmp antisymmetric/total/transitive, Equal <=> ==, == <=> same text, equal => same hash stream, order == stated rule, print/parse round trip, "
            "identical edits give identical revisions, digest independent of insertion order.", "DESIGN.md §5 C19"),
})
CLAIMED.update({
    "C03": ("Kernel part: DataStorage pack writer vs pack re-indexer over the real MemoryAdapter, executed from MIR, for every string content over the alphabet "
            "{ } [ ] , : \" \\ a up to the stated length, several object skeletons, 0..2 (thorough 3) objects per pack: every staged value is readable with the same "
            "content from the writing storage, a reopened storage and a refreshed storage. Found the brace-in-string defect (fixed). Melda-level commit->reopen not yet covered here.", "DESIGN.md §5 C03"),
    "C07": ("Melda-level, executed from MIR: two replicas, update/update, update/delete, delete/delete conflicts on an object with symbolic values; every live leaf chosen; "
            "conflict cleared, value = value at chosen revision, deletion => absent and winner is a deletion, choosing the winner leaves the document unchanged, commit + "
            "propagation gives identical state, independent resolutions on both replicas converge. Found the resolve-to-deletion defect (fixed).", "DESIGN.md §5 C07"),
    "C08": ("Single client thread: every lock acquisition of the MIR is tracked; re-acquiring a held Mutex/RwLock (self-deadlock) or any panic on a well-formed scenario is a "
            "violation. Scenario: concurrent array edits, exchange, further edit, commit, stage, snapshot, unstage, refresh, reload, getters. Found the commit self-deadlock (fixed). "
            "Worker-pool sizes / real interleavings are not applicable to this technique.", "DESIGN.md §5 C08"),
    "C10": ("Melda::new over a 2-commit storage with one injected junk item (symbolic ASCII name with block/pack extension incl. over-long digit runs) or one damaged item "
            "(removed, emptied, truncated, any single byte at first/middle/last position replaced by any other byte - decided through the injective digest model): never a "
            "panic; either Err or exactly the state of the intact causally complete subset. Found the DeltaId::from overflow panic (fixed).", "DESIGN.md §5 C10"),
})
CLAIMED.update({
    "C04": ("Melda-level, executed from MIR: after 0..2 earlier documents (committed or not) a document of one of three families (element orders and objects moving "
            "between two flattened arrays; flattened object / string fields with symbolic printable content appearing, disappearing, changing kind; a flattened key "
            "changing kind among absent / array / empty array / number / string / object) is submitted: read() equals it with only identifiers added; resubmission stages "
            "nothing; commit result matches has_staging; an idle commit writes nothing; reopened replica equal. Found the deleted-array-descriptor defect (fixed).", "DESIGN.md §5 C04"),
})
CLAIMED.update({
    "C13": ("Melda-level, executed from MIR, on a 6-block two-replica history with a concurrent pair and a merge commit: every commit creates exactly one new stored block whose "
            "parents are the previous heads, whose index is max(parent)+1 and which becomes the only head; heads are ancestor-free and ancestor-closed after commit, meld+refresh, "
            "reopen, time travel to any block and reload; metadata (symbolic char, nested, empty, None), parents and packs read back identically on both replicas and after reopen.", "DESIGN.md §5 C13"),
    "C14": ("Same history: for EVERY head set replica a ever had (single heads and the two-head set after the merge) reload_until and new_until show exactly the recorded state, "
            "a plain reload returns to the latest state, and every revision of the travelled history keeps its value and parent.", "DESIGN.md §5 C14"),
})
CLAIMED.update({
    "C02": ("Melda-level, executed from MIR: the items of a linear 2-commit history (all 24 orders of its 4 files) and of a concurrent+merge history (all 720 orders of 6 files on top of the "
            "base) are delivered one file at a time to a fresh replica that refreshes after each: the visible state always equals the recorded state of exactly the causally complete "
            "blocks (block + all ancestors + packs present), equals a full reload of the same storage, and finally equals the source.", "DESIGN.md §5 C02"),
    "C09": ("Melda-level with a harness-side fault-injecting backend around the real MemoryAdapter: 1-2 failing writes inside a commit (incl. the same write failing on the retry) leave the "
            "stage and the view intact, the retry is as durable as an uninterrupted commit, a block never precedes its pack, and reopening at EVERY write boundary of the commit / of a meld with "
            "failing copy writes shows only complete previous/new states; repeating the meld converges.", "DESIGN.md §5 C09"),
    "C12": ("Melda-level: in states with pending array and object conflicts (concurrent inserts at the same position, moves between arrays, removals; optional symbolic element ids) read() is "
            "unchanged by meld without refresh, idle refresh/reload, stage_full_snapshot (+commit, reopen), commit with automatic array resolution (+reopen) and idle commit.", "DESIGN.md §5 C12"),
})
CLAIMED.update({
    "C01": ("Tree level: order-of-learning insensitivity of RevisionTree for all record sets up to 3 (thorough 4). Melda level, executed from MIR: every symbolic sequence of up to 3 (thorough 4) operations "
            "over {update, commit, meld+refresh in both directions, unstage} on two replicas, followed by exchange to a fixpoint: both replicas, a replica fed by plain file copy with refreshes at symbolic points "
            "and a replica opened by one reload expose the same state; plus all delivery orders of a 2-commit history.", "DESIGN.md §5 C01"),
    "C11": ("Melda level, executed from MIR with the real-length (64 hex) digest model: after every step of a two-replica history with rich commit metadata every stored key equals the digest of its bytes "
            "(blocks: index = 1 + max parent index), the key set only grows, existing bytes never change, melded items are byte-identical, replicas with the same history hold identical items, and "
            "non-writing operations write nothing; pack name = digest of its bytes at the kernel level.", "DESIGN.md §5 C11"),
    "C17": ("Partial: MemoryAdapter and the Arc<RwLock<Box<dyn Adapter>>> wrapper executed from MIR against a reference model for all sequences of 1..2 (thorough 3) writes with symbolic keys (incl. keys whose "
            "stem ends with the suffix) and symbolic contents: first write wins, whole and ranged reads (symbolic offset/length), missing keys, listing by suffix with the suffix removed once. "
            "Directory / SQLite / Solid backends and the compression codecs are N/A for this technique.", "DESIGN.md §5 C17"),
    "C18": ("Partial: the same history run with canonical orders vs with <= nd_budget reversed iteration events (hash tables, sequentialised worker pool), reversed storage listing and symbolic cache "
            "capacities 1..3 yields the same objects, winners, conflicts and documents (also after reopen and on the second replica). Worker-pool sizes / real parallel schedules N/A.", "DESIGN.md §5 C18"),
})
NA_REASON_PENDING = "check not built yet in this revision of /verif (Melda-level MIR reach in progress); not claimed"

checks = []
for pid, (text, ref) in sorted(CLAIMED.items()):
    checks.append({
        "property_id": pid,
        "quick_cmd": "./check %s quick" % pid,
        "thorough_cmd": "./check %s thorough" % pid,
        "evidence_file": "/verif/evidence/%s.json" % pid,
        "replay_cmd_template": "python3-vt replay.py {path}",
        "engine": "mirsym",
        "level_claimed": {"category": "model_checking", "text": text, "design_ref": ref},
        "level_note": NOTE,
        "technique": TECH,
    })
na = json.load(open('/verif/not_applicable.json'))
na_list = []
for pid in sorted(props):
    if pid in CLAIMED:
        continue
    na_list.append({"property_id": pid, "reason": na.get(pid, NA_REASON_PENDING)})
m = {
    "version": 1,
    "setup_cmd": "./setup.sh",
    "hooks": {
        "guard": "melda_verif",
        "enable": "RUSTFLAGS=--cfg melda_verif (set by the checks when they dump MIR / build the native replay harness)",
        "baseline_off_cmd": "cd /repo && cargo test --workspace --no-fail-fast --offline",
        "source_commits": hook_commits,
        "add_only": True,
    },
    "engines": [{"name": "mirsym", "path": "/verif/mirsym", "serves_properties": sorted(CLAIMED),
                 "kind_free_text": "Python + z3 bounded symbolic executor over rustc MIR text dumped from /repo on every run; fork-per-branch exploration; native replay of counterexamples"}],
    "checks": checks,
    "not_applicable": na_list,
    "notes": "Exit codes: 0 holds within bounds, 1 reproduced violation (VIOLATION line), 2 inconclusive (never an alarm). See DESIGN.md.",
}
json.dump(m, open('/verif/MANIFEST.json', 'w'), indent=1)
print("claimed", sorted(CLAIMED), "na", len(na_list))
