"""Regenerates MANIFEST.json from the claimed-property table below."""
import json, subprocess
props = {l['id']: l for l in map(json.loads, open('/verif/properties.jsonl'))}
hook_commits = subprocess.run(['git', '-C', '/repo', 'log', '--format=%H %s'], capture_output=True, text=True).stdout.strip().split('\n')
hook_commits = [l.split()[0] for l in hook_commits if 'verif hook' in l]

TECH = "bounded symbolic execution of rustc MIR (mirsym) with z3; forks decided by the solver; counterexamples replayed natively"
NOTE = ("Trusted base: rustc nightly MIR dump of /repo's working tree, the mirsym interpreter and its library models (std containers, serde_json, "
        "regex, locks; SHA-256 as an injective uninterpreted function on symbolic content), z3. Every reported violation is reproduced on the "
        "natively compiled crate first; a sample of passing paths is re-run natively and must agree. Nothing is claimed outside the stated bounds.")

CLAIMED = {
    "C01": ("Tree level: RevisionTree built by add / unvalidated_add+validate in every order of learning equals the rule for all record sets up to 3 records (quick: digests in {a,b,r} and one hash order for 3 records; thorough: forward and reverse hash orders, [0-9a-z] digests). Melda level, executed from MIR: "
            "every symbolic sequence of up to 3 operations (thorough: 6 instead of 3 document versions) over {update, commit (+reopen comparison), meld+refresh in both directions, unstage, delete_object, stage_full_snapshot, resolve_as, reload} "
            "on two replicas followed by exchange to a fixpoint: both replicas, a replica fed by plain file copy with refreshes at symbolic points and a replica opened by one reload expose the same state; "
            "all delivery orders of a 2-commit history; identical revisions in two blocks; mixed file-copy + meld routes; a pack first seen half copied.", "DESIGN.md §5 C01"),
    "C02": ("Melda level, executed from MIR: the files of a linear 2-commit history (all 24 orders, one full reload at a symbolic point) and of a concurrent+merge history (all 720 orders of 6 files) are "
            "delivered one at a time to a replica that refreshes after each: the visible state always equals the recorded state of exactly the causally complete blocks and a full reload of the same storage; "
            "objects de-duplicated against packs of held-back blocks; a block still waits for its own pack when its objects are readable elsewhere.", "DESIGN.md §5 C02"),
    "C03": ("DataStorage pack writer vs pack re-indexer over the real MemoryAdapter for every string over { } [ ] , : \" \\ a tab newline up to the stated length, several object skeletons, 0..2 "
            "objects per pack: every staged value is readable with the same content from the writing, a reopened and a refreshed storage. Melda level: commit then reopen shows the same state after 1..3 staged "
            "updates, with automatic array resolution, with id-only (empty) elements. Floats are outside the claim. Found the brace-in-string defect (fixed).", "DESIGN.md §5 C03"),
    "C04": ("Melda level, executed from MIR: after 0..2 earlier documents (committed or not) a document of one of five families (element orders and objects moving between two flattened arrays; flattened "
            "object / string fields with symbolic content appearing, disappearing, changing kind; a flattened key changing kind; sibling anonymous sub-objects and id-only elements; identifiers and strings "
            "starting with the escape characters) is submitted: read() equals it with only identifiers added; resubmission stages nothing; commit result matches has_staging; an idle commit writes nothing; "
            "reopened replica equal; also while conflicts are pending. Found two defects (fixed).", "DESIGN.md §5 C04"),
    "C05": ("RevisionTree (add / unvalidated_add / validate / is_valid_cached / get_leafs / get_winner) and Revision order executed from MIR: for ALL sets of up to 3 change records of every shape "
            "(creations, updates, deletions, resolution markers, dangling parents of index 1 and 2, duplicates), symbolic digests, every order of learning and the explored hash-iteration orders, leaves and "
            "winner equal the stated rule evaluated by an independent oracle.", "DESIGN.md §5 C05"),
    "C06": ("utils::merge_arrays for ALL pairs of duplicate-free sequences up to length 4 (thorough 6) over an unbounded element domain: no loss / duplication / invention, order clauses. Melda level: two "
            "replicas x 10 array versions (same-position inserts, moves between arrays, removals, symbolic ids), chains of two versions per replica (equal edit scripts over different parents), nested arrays: "
            "each surviving element exactly once on both replicas, also after commit + propagation.", "DESIGN.md §5 C06"),
    "C07": ("Melda level, executed from MIR: update/update, update/delete, delete/delete and three-way conflicts on an object with symbolic values, and array conflicts; every live leaf chosen: conflict cleared, "
            "state = state at the chosen revision, deletion => absent, choosing the winner changes nothing, commit + propagation gives identical state, independent resolutions converge. Found the "
            "resolve-to-deletion defect (fixed).", "DESIGN.md §5 C07"),
    "C08": ("Partial. Single client thread: every lock acquisition of the MIR is tracked; re-acquiring a held Mutex/RwLock (self-deadlock) or any panic on well-formed input is a violation. Every public operation "
            "in eight kinds of state (empty, staged, committed with deletions, object + array conflicts pending, staged resolutions, after time travel, array dropped on one side, a block held back in storage). Found three defects (fixed). "
            "Worker-pool sizes / real interleavings are not applicable to this technique.", "DESIGN.md §5 C08, §6"),
    "C09": ("Melda level with a harness-side fault-injecting backend around the real MemoryAdapter: 1-2 failing writes inside a commit (incl. the same write failing on the retry; retry or unstage + identical "
            "edit) leave the stage and the view intact, the result is as durable as an uninterrupted commit and transferable by meld, a block never precedes its pack, and reopening at EVERY write boundary of "
            "the commit / of a meld with failing copies shows only complete previous/new states.", "DESIGN.md §5 C09"),
    "C10": ("Melda::new / refresh over a 2-commit (and a merge) storage with one injected junk item (symbolic ASCII name with block/pack extension incl. over-long digit runs) or one damaged item (removed, "
            "emptied, truncated, renamed, any single byte replaced by any other byte - decided through the injective digest model), damage in place under a live replica before and after its objects were "
            "read, and a half-copied pack completed later: never a panic; either Err or exactly the state of the intact causally complete subset. Found the DeltaId::from overflow panic (fixed).", "DESIGN.md §5 C10"),
    "C11": ("Melda level, executed from MIR with the real-length (64 hex) digest model: after every step of a two-replica history with rich commit metadata (incl. a pack-less commit, relays, a commit after "
            "time travel) every stored key equals the digest of its bytes (blocks: index = 1 + max parent index), the key set only grows, existing bytes never change, melded items are byte-identical, "
            "replicas with the same history hold identical items, non-writing operations write nothing.", "DESIGN.md §5 C11"),
    "C12": ("Melda level: in states with pending array and object conflicts (concurrent inserts at the same position, moves between arrays, removals; optional symbolic element ids; default and capacity-1 "
            "caches) read() is unchanged by meld without refresh, idle refresh/reload, stage_full_snapshot (+commit, reopen), commit with automatic array resolution (+reopen, +reload) and idle commit.", "DESIGN.md §5 C12"),
    "C13": ("Melda level on a 6-block two-replica history with a concurrent pair of unequal length and a merge commit: every commit creates exactly one new stored block whose parents are the previous heads, "
            "index max(parent)+1, the only head afterwards; heads ancestor-free and ancestor-closed after commit, meld+refresh, reopen, time travel to any block, meld after time travel, redo of a stored "
            "block and reload; metadata, parents and packs read back identically on both replicas and after reopen.", "DESIGN.md §5 C13"),
    "C14": ("Same history (and a two-diamond history): for EVERY head set replica a ever had (single heads and two-head sets, with a first hop to another point) reload_until and new_until show exactly the "
            "recorded state, a plain reload returns to the latest state, and every revision of the travelled history keeps its value and parent.", "DESIGN.md §5 C14"),
    "C15": ("Tree level: for ALL trees of up to 2 committed + 2 staged records unstage() restores exactly the committed entries, leaves and winner; commit() clears the staged flags only. Melda level: stage -> "
            "unstage -> replay restores the staged state (also with chained staged revisions exported in either order, staged resolutions, create+remove), unstage restores the committed state, reload / "
            "refresh refuse while staged, commit leaves nothing staged.", "DESIGN.md §5 C15"),
    "C16": ("utils::make_diff_patch + apply_diff_patch (incl. the yavomrs Myers implementation) executed from MIR: for ALL pairs of arrays with repetitions up to length 3 (thorough 5) the patched array equals "
            "the submitted one and the patch is empty iff nothing changed. Melda level: chains of 3-4 array versions (key may disappear mid-chain, identical consecutive edit scripts) with symbolic cache "
            "capacities 1..3, observers receiving several versions at once. Found two defects (fixed).", "DESIGN.md §5 C16"),
    "C17": ("Partial. MemoryAdapter (directly and through the Arc<RwLock<Box<dyn Adapter>>> wrapper), FilesystemAdapter (over an ideal in-memory file-system model, incl. a second instance on the same "
            "directory) and Flate2Adapter over both (Deflate abstracted to an invertible framing), executed from MIR against one reference model of the write-once contract for all sequences of 1..2 "
            "writes with symbolic keys and contents: first write wins, whole and ranged reads, missing keys, listing by suffix. Found the Flate2 listing defect (fixed). SQLite / Solid / Brotli "
            "and the real codec / OS behaviour are N/A for this technique.", "DESIGN.md §5 C17, §6"),
    "C18": ("Partial: the same history run with canonical orders vs with <= nd_budget reversed iteration events (hash tables, sequentialised worker pool), reversed storage listing and symbolic cache "
            "capacities 1..3 yields the same objects, winners, conflicts and documents (also after reopen and on the second replica); three-way array conflicts learnt in any order. Worker-pool sizes / real "
            "parallel schedules N/A.", "DESIGN.md §5 C18, §6"),
    "C19": ("revision.rs executed from MIR on symbolic system-producible revisions (derivation depth <= 1, thorough 2; parsed revisions with index over the whole u32 range): cmp antisymmetric / total / "
            "transitive, Equal <=> ==, == <=> same text, equal => same hash stream, order == stated rule, print/parse round trip, identical edits give identical revisions, tail derived from the parent "
            "identifier only, digest independent of insertion order.", "DESIGN.md §5 C19"),
}
NA_REASON_PENDING = "check not built yet in this revision of /verif (Melda-level MIR reach in progress); not claimed"

checks = []
for pid, (text, ref) in sorted(CLAIMED.items()):
    checks.append({
        "property_id": pid,
        "quick_cmd": "./check %s quick" % pid,
        "thorough_cmd": "./check %s thorough" % pid,
        "evidence_file": "/verif/evidence/%s.json" % pid,
        "replay_cmd_template": "python3-vt replay.py {path}",
        "engine": "mirsym",
        "level_claimed": {"category": "model_checking", "text": text, "design_ref": ref},
        "level_note": NOTE,
        "technique": TECH,
    })
na = json.load(open('/verif/not_applicable.json'))
na_list = []
for pid in sorted(props):
    if pid in CLAIMED:
        continue
    na_list.append({"property_id": pid, "reason": na.get(pid, NA_REASON_PENDING)})
m = {
    "version": 1,
    "setup_cmd": "./setup.sh",
    "hooks": {
        "guard": "melda_verif",
        "enable": "RUSTFLAGS=--cfg melda_verif (set by the checks when they dump MIR / build the native replay harness)",
        "baseline_off_cmd": "cd /repo && cargo test --workspace --no-fail-fast --offline",
        "source_commits": hook_commits,
        "add_only": True,
    },
    "engines": [{"name": "mirsym", "path": "/verif/mirsym", "serves_properties": sorted(CLAIMED),
                 "kind_free_text": "Python + z3 bounded symbolic executor over rustc MIR text dumped from /repo on every run; fork-per-branch exploration; native replay of counterexamples"}],
    "checks": checks,
    "not_applicable": na_list,
    "notes": "Exit codes: 0 holds within bounds, 1 reproduced violation (VIOLATION line), 2 inconclusive (never an alarm). See DESIGN.md.",
}
json.dump(m, open('/verif/MANIFEST.json', 'w'), indent=1)
print("claimed", sorted(CLAIMED), "na", len(na_list))
