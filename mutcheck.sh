#!/bin/bash
# usage: mutcheck.sh <seed-name> <property> [tier]  -- applies a seeded change to /repo, runs the check, reverts
NAME=$1; PROP=$2; TIER=${3:-quick}
cd /repo || exit 9
if [ -n "$(git status --porcelain --untracked-files=no)" ]; then echo "/repo is dirty"; exit 9; fi
git apply /verif/seeded/$NAME/patch.diff || { echo "patch does not apply"; exit 9; }
cd /verif
timeout 3000 ./check $PROP $TIER > /tmp/mutcheck.$NAME.$PROP.log 2>&1; RC=$?
git -C /repo checkout -- .
grep -m3 "VIOLATION\|INCONCLUSIVE:" /tmp/mutcheck.$NAME.$PROP.log | cut -c1-300
grep -A1 -m1 "VIOLATION" /tmp/mutcheck.$NAME.$PROP.log | tail -1 | cut -c1-300
tail -1 /tmp/mutcheck.$NAME.$PROP.log
echo "seed=$NAME prop=$PROP tier=$TIER exit=$RC"
