import os
import sys
sys.path.insert(0, os.path.dirname(os.path.abspath(__file__)))
sys.setrecursionlimit(20000)
from mirsym.check import run_check
import props


def _stop(signum, frame):
    """SIGTERM / SIGINT (e.g. from `timeout`): stop every exploration process of this check and remove its scratch data."""
    import shutil
    import signal
    if os.getpid() != MAIN_PID:
        os._exit(143)
    from mirsym import engine
    for d in list(engine.LIVE_OUTDIRS):
        shutil.rmtree(d, ignore_errors=True)
    signal.signal(signal.SIGTERM, signal.SIG_IGN)
    try:
        os.killpg(os.getpgrp(), signal.SIGTERM)
    except Exception:
        pass
    os._exit(143)


MAIN_PID = os.getpid()


def main():
    import signal
    try:
        os.setpgrp()
    except Exception:
        pass
    signal.signal(signal.SIGTERM, _stop)
    signal.signal(signal.SIGINT, _stop)
    prop = sys.argv[1]
    tier = sys.argv[2] if len(sys.argv) > 2 else os.environ.get("VERIF_TIER", "quick")
    if prop not in props.PROPS:
        print("unknown property", prop)
        sys.exit(2)
    d = props.PROPS[prop](tier)
    code = run_check(prop, tier, d["jobs"], d.get("note", ""), d.get("assumptions", []), d.get("bounds", {}))
    sys.exit(code)


main()
