import os
import sys
sys.path.insert(0, os.path.dirname(os.path.abspath(__file__)))
sys.setrecursionlimit(20000)
from mirsym.check import run_check
import props


def main():
    prop = sys.argv[1]
    tier = sys.argv[2] if len(sys.argv) > 2 else os.environ.get("VERIF_TIER", "quick")
    if prop not in props.PROPS:
        print("unknown property", prop)
        sys.exit(2)
    d = props.PROPS[prop](tier)
    code = run_check(prop, tier, d["jobs"], d.get("note", ""), d.get("assumptions", []), d.get("bounds", {}))
    sys.exit(code)


main()
