"""Symbolic byte strings with concrete length.

A string is a tuple of bytes; each byte is a python int or a z3 Int term (0..255). Used for both
`str`/`String` and `[u8]`/`Vec<u8>`. Lengths are always concrete: sources of unknown length (a symbolic
string of variable length, the decimal rendering of a symbolic integer) fork on the length when they
are created, so that every comparison reduces to linear integer arithmetic over the bytes.
"""
import z3


def _is_int(c):
    return isinstance(c, int)


class SStr:
    __slots__ = ("chars", "_conc")

    def __init__(self, parts=()):
        out = []
        for p in parts:
            if isinstance(p, str):
                out.extend(ord(ch) for ch in p)
            elif isinstance(p, SStr):
                out.extend(p.chars)
            elif isinstance(p, int) or isinstance(p, z3.ArithRef):
                out.append(p)
            elif isinstance(p, (list, tuple)):
                out.extend(p)
            else:
                raise TypeError(p)
        self.chars = tuple(out)
        self._conc = None

    # -------- constructors
    @staticmethod
    def lit(s):
        return SStr((s,))

    @staticmethod
    def from_utf8_text(t):
        return SStr((t.encode("utf-8").decode("latin-1"),))

    @staticmethod
    def of_chars(cs):
        s = SStr()
        s.chars = tuple(cs)
        return s

    # -------- basic
    def is_concrete(self):
        if self._conc is None:
            self._conc = all(type(c) is int for c in self.chars)
        return self._conc

    def concrete(self):
        assert self.is_concrete()
        return "".join(map(chr, self.chars))

    def text(self):
        return bytes(self.chars).decode("utf-8", "replace")

    def known_len(self):
        return len(self.chars)

    def length(self):
        return len(self.chars)

    def __len__(self):
        return len(self.chars)

    def concat(self, other):
        return SStr.of_chars(self.chars + other.chars)

    def same(self, other):
        if len(self.chars) != len(other.chars):
            return False
        for a, b in zip(self.chars, other.chars):
            ia = type(a) is int
            if ia != (type(b) is int):
                return False
            if ia:
                if a != b:
                    return False
            elif not a.eq(b):
                return False
        return True

    def eq(self, other):
        """python bool or z3 Bool"""
        if len(self.chars) != len(other.chars):
            return False
        conj = []
        for a, b in zip(self.chars, other.chars):
            ia, ib = type(a) is int, type(b) is int
            if ia and ib:
                if a != b:
                    return False
            elif not ia and not ib and a.eq(b):
                continue
            else:
                conj.append(a == b)
        if not conj:
            return True
        return conj[0] if len(conj) == 1 else z3.And(*conj)

    def lt(self, other, or_equal=False):
        """byte-wise lexicographic order"""
        a, b = self.chars, other.chars
        n = min(len(a), len(b))
        # strip common concrete / identical prefix
        i = 0
        while i < n:
            x, y = a[i], b[i]
            if type(x) is int and type(y) is int:
                if x != y:
                    return x < y
            elif not (type(x) is not int and type(y) is not int and x.eq(y)):
                break
            i += 1
        if i == n:
            if len(a) == len(b):
                return or_equal
            return len(a) < len(b)
        # tail result when all compared positions are equal
        if len(a) == len(b):
            tail = or_equal
        else:
            tail = len(a) < len(b)
        res = tail
        for k in range(n - 1, i - 1, -1):
            x, y = a[k], b[k]
            if type(x) is int and type(y) is int:
                if x != y:
                    res = x < y
                continue
            if type(x) is not int and type(y) is not int and x.eq(y):
                continue
            if res is True:
                res = x <= y
            elif res is False:
                res = x < y
            else:
                res = z3.Or(x < y, z3.And(x == y, res))
        return res

    def le(self, other):
        return self.lt(other, True)

    def startswith(self, pre):
        n = len(pre.chars)
        if n > len(self.chars):
            return False
        return SStr.of_chars(self.chars[:n]).eq(pre)

    def endswith(self, suf):
        n = len(suf.chars)
        if n > len(self.chars):
            return False
        return SStr.of_chars(self.chars[len(self.chars) - n:]).eq(suf)

    def slice(self, a, b):
        return SStr.of_chars(self.chars[a:b])

    def byte_at(self, i):
        return self.chars[i]

    def sym_vars(self):
        return [c for c in self.chars if type(c) is not int]

    def __repr__(self):
        out = []
        buf = []
        for c in self.chars:
            if type(c) is int:
                buf.append(chr(c) if 32 <= c < 127 else "\\x%02x" % c)
            else:
                if buf:
                    out.append("".join(buf))
                    buf = []
                out.append("<%s>" % c)
        if buf:
            out.append("".join(buf))
        return "S(" + "".join(out) + ")"


EMPTY = SStr(())


class Sym:
    """kept for source compatibility (no longer used)"""
    def __init__(self, e, n=None):
        raise TypeError("Sym parts are obsolete")


# ---------------------------------------------------------------- character classes
def cls_digit(c):
    return 48 <= c <= 57


def cls_hex(c):
    return 48 <= c <= 57 or 97 <= c <= 102


def cls_lower(c):
    return 97 <= c <= 122


def cls_alnum(c):
    return 48 <= c <= 57 or 97 <= c <= 122


def cls_word(c):
    return 48 <= c <= 57 or 65 <= c <= 90 or 97 <= c <= 122 or c == 95


def cls_printable(c):
    return 32 <= c <= 126


def cls_byte(c):
    return 0 <= c <= 255


def cls_json_escape(c):
    return c == 34 or c == 92 or c < 32


def z3_in_ranges(c, ranges):
    alts = []
    for lo, hi in ranges:
        alts.append(c == lo if lo == hi else z3.And(c >= lo, c <= hi))
    return alts[0] if len(alts) == 1 else z3.Or(*alts)


CLASS_RANGES = {
    "digit": [(48, 57)],
    "hex": [(48, 57), (97, 102)],
    "lower": [(97, 122)],
    "alnum": [(48, 57), (97, 122)],
    "word": [(48, 57), (65, 90), (95, 95), (97, 122)],
    "printable": [(32, 126)],
    "byte": [(0, 255)],
    "json_escape": [(0, 31), (34, 34), (92, 92)],
    "abr": [(97, 98), (114, 114)],
    # tab, newline, structural JSON characters, quote, backslash, a letter
    "jsonish": [(9, 10), (34, 34), (44, 44), (58, 58), (91, 93), (97, 97), (123, 123), (125, 125)],
}

# class inclusion facts used to answer membership questions without a solver call
SUBCLASS = {
    ("digit", "hex"), ("digit", "alnum"), ("digit", "word"), ("digit", "printable"), ("digit", "byte"),
    ("hex", "alnum"), ("hex", "word"), ("hex", "printable"), ("hex", "byte"),
    ("lower", "alnum"), ("lower", "word"), ("lower", "printable"), ("lower", "byte"),
    ("alnum", "word"), ("alnum", "printable"), ("alnum", "byte"), ("word", "printable"), ("word", "byte"),
    ("printable", "byte"), ("abr", "lower"), ("abr", "alnum"), ("abr", "word"), ("abr", "printable"), ("abr", "byte"), ("abr", "hex") if False else ("abr", "byte"),
}
DISJOINT = {
    ("digit", "lower"), ("lower", "digit"), ("digit", "json_escape"), ("hex", "json_escape"), ("lower", "json_escape"),
    ("alnum", "json_escape"), ("word", "json_escape"), ("abr", "json_escape"), ("abr", "digit"),
}


def in_class_concrete(c, cls):
    for lo, hi in CLASS_RANGES[cls]:
        if lo <= c <= hi:
            return True
    return False
