"""Segmented symbolic byte strings.

A string is a concatenation of parts; a part is either a python str whose characters are
bytes (latin-1 view of the UTF-8 encoding) or a symbolic z3 String term, optionally of known
length. Used for both `str`/`String` and `[u8]`/`Vec<u8>`.
"""
import z3


class Sym:
    __slots__ = ("e", "n")

    def __init__(self, e, n=None):
        self.e = e
        self.n = n

    def __repr__(self):
        return "<%s:%s>" % (self.e, self.n)


def _z3str(s):
    # python str of byte-chars -> z3 string literal
    return z3.StringVal(s)


class SStr:
    __slots__ = ("parts", "_z")

    def __init__(self, parts=()):
        out = []
        for p in parts:
            if isinstance(p, str):
                if not p:
                    continue
                if out and isinstance(out[-1], str):
                    out[-1] = out[-1] + p
                else:
                    out.append(p)
            elif isinstance(p, Sym):
                if p.n == 0:
                    continue
                out.append(p)
            elif isinstance(p, SStr):
                for q in p.parts:
                    if isinstance(q, str) and out and isinstance(out[-1], str):
                        out[-1] = out[-1] + q
                    else:
                        out.append(q)
            else:
                raise TypeError(p)
        self.parts = tuple(out)
        self._z = None

    # -------- constructors
    @staticmethod
    def lit(s):
        return SStr((s,))

    @staticmethod
    def from_utf8_text(t):
        return SStr((t.encode("utf-8").decode("latin-1"),))

    @staticmethod
    def sym(e, n=None):
        return SStr((Sym(e, n),))

    # -------- basic
    def is_concrete(self):
        return all(isinstance(p, str) for p in self.parts)

    def concrete(self):
        assert self.is_concrete()
        return "".join(self.parts)

    def text(self):
        return self.concrete().encode("latin-1").decode("utf-8", "replace")

    def to_z3(self):
        if self._z is None:
            ts = [(_z3str(p) if isinstance(p, str) else p.e) for p in self.parts]
            if not ts:
                self._z = z3.StringVal("")
            elif len(ts) == 1:
                self._z = ts[0]
            else:
                self._z = z3.Concat(*ts)
        return self._z

    def known_len(self):
        n = 0
        for p in self.parts:
            if isinstance(p, str):
                n += len(p)
            elif p.n is None:
                return None
            else:
                n += p.n
        return n

    def length(self):
        """python int or z3 Int"""
        n = 0
        sym = []
        for p in self.parts:
            if isinstance(p, str):
                n += len(p)
            elif p.n is None:
                sym.append(z3.Length(p.e))
            else:
                n += p.n
        if not sym:
            return n
        return z3.Sum([z3.IntVal(n)] + sym) if n else (sym[0] if len(sym) == 1 else z3.Sum(sym))

    def concat(self, other):
        return SStr(self.parts + other.parts)

    def same(self, other):
        """syntactic identity"""
        if len(self.parts) != len(other.parts):
            return False
        for a, b in zip(self.parts, other.parts):
            if isinstance(a, str) != isinstance(b, str):
                return False
            if isinstance(a, str):
                if a != b:
                    return False
            elif not a.e.eq(b.e):
                return False
        return True

    def eq(self, other):
        """python bool or z3 Bool"""
        if self.is_concrete() and other.is_concrete():
            return self.concrete() == other.concrete()
        if self.same(other):
            return True
        la, lb = self.known_len(), other.known_len()
        if la is not None and lb is not None and la != lb:
            return False
        # strip common concrete prefix / suffix
        a, b = list(self.parts), list(other.parts)
        while a and b and isinstance(a[0], str) and isinstance(b[0], str):
            k = min(len(a[0]), len(b[0]))
            if a[0][:k] != b[0][:k]:
                return False
            a[0], b[0] = a[0][k:], b[0][k:]
            if not a[0]:
                a.pop(0)
            if not b[0]:
                b.pop(0)
        while a and b and isinstance(a[-1], str) and isinstance(b[-1], str):
            k = min(len(a[-1]), len(b[-1]))
            if a[-1][-k:] != b[-1][-k:]:
                return False
            a[-1], b[-1] = a[-1][:-k], b[-1][:-k]
            if not a[-1]:
                a.pop()
            if not b[-1]:
                b.pop()
        while a and b and isinstance(a[0], Sym) and isinstance(b[0], Sym) and a[0].e.eq(b[0].e):
            a.pop(0)
            b.pop(0)
        while a and b and isinstance(a[-1], Sym) and isinstance(b[-1], Sym) and a[-1].e.eq(b[-1].e):
            a.pop()
            b.pop()
        if not a and not b:
            return True
        return SStr(a).to_z3() == SStr(b).to_z3()

    def lt(self, other):
        if self.is_concrete() and other.is_concrete():
            return self.concrete() < other.concrete()
        return self.to_z3() < other.to_z3()

    def le(self, other):
        if self.is_concrete() and other.is_concrete():
            return self.concrete() <= other.concrete()
        return self.to_z3() <= other.to_z3()

    def startswith(self, pre):
        if pre.is_concrete():
            p = pre.concrete()
            if not p:
                return True
            if self.parts and isinstance(self.parts[0], str) and len(self.parts[0]) >= len(p):
                return self.parts[0].startswith(p)
            if self.is_concrete():
                return self.concrete().startswith(p)
        return z3.PrefixOf(pre.to_z3(), self.to_z3())

    def endswith(self, suf):
        if suf.is_concrete():
            p = suf.concrete()
            if not p:
                return True
            if self.parts and isinstance(self.parts[-1], str) and len(self.parts[-1]) >= len(p):
                return self.parts[-1].endswith(p)
            if self.is_concrete():
                return self.concrete().endswith(p)
        return z3.SuffixOf(suf.to_z3(), self.to_z3())

    def slice(self, a, b):
        """substring [a,b) with concrete bounds; requires known lengths up to b"""
        out = []
        pos = 0
        for p in self.parts:
            if pos >= b:
                break
            if isinstance(p, str):
                ln = len(p)
            else:
                ln = p.n
                if ln is None:
                    # unknown-length part: only sliceable through z3
                    return SStr.sym(z3.SubString(self.to_z3(), z3.IntVal(a), z3.IntVal(b - a)), b - a)
            lo, hi = max(a, pos), min(b, pos + ln)
            if lo < hi:
                if isinstance(p, str):
                    out.append(p[lo - pos:hi - pos])
                elif lo == pos and hi == pos + ln:
                    out.append(p)
                else:
                    out.append(Sym(z3.SubString(p.e, z3.IntVal(lo - pos), z3.IntVal(hi - lo)), hi - lo))
            pos += ln
        return SStr(out)

    def byte_at(self, i):
        """python int or z3 Int (code of byte i); requires known lengths up to i"""
        pos = 0
        for p in self.parts:
            ln = len(p) if isinstance(p, str) else p.n
            if ln is None:
                return z3.StrToCode(z3.SubString(self.to_z3(), z3.IntVal(i), z3.IntVal(1)))
            if i < pos + ln:
                if isinstance(p, str):
                    return ord(p[i - pos])
                if ln == 1:
                    return z3.StrToCode(p.e)
                return z3.StrToCode(z3.SubString(p.e, z3.IntVal(i - pos), z3.IntVal(1)))
            pos += ln
        raise IndexError(i)

    def __repr__(self):
        return "S" + repr(list(self.parts))


EMPTY = SStr(())
