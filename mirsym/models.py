"""Model registry + helper functions shared by the model modules."""
import re
import z3
from .values import *
from .sstr import SStr
from .interp import Inconclusive, INT_BITS, int_range, wrap_int, Program


class Models:
    def __init__(self):
        self.exact = {}
        self.patterns = []
        self.consts = {}

    def lookup_pattern(self, key):
        for rx, fn in self.patterns:
            if rx.match(key):
                return fn
        return None


REG = Models()


def model(*keys):
    def deco(fn):
        for k in keys:
            REG.exact[k] = fn
        return fn
    return deco


def model_re(rx):
    def deco(fn):
        REG.patterns.append((re.compile(rx), fn))
        return fn
    return deco


def const_model(key):
    def deco(fn):
        REG.consts[key] = fn
        return fn
    return deco


STOP = object()


# ------------------------------------------------------------------ helpers
def deref(v):
    """follow thin references / boxes / guards to the pointee value"""
    while True:
        t = type(v)
        if t is Ref:
            v = v.lst[v.idx]
        elif t is GuardObj:
            v = v.lock.fields[0]
        elif t is BoxObj:
            v = v.fields[0]
        else:
            return v


def deref1(v):
    if type(v) is Ref:
        return v.lst[v.idx]
    return v


def as_sstr(v):
    v = deref(v)
    if isinstance(v, SStr):
        return v
    if isinstance(v, StringObj):
        return v.s
    if type(v) is Agg and v.ty == "serde_json::Value" and v.variant == 3:
        return v.fields[0].s
    raise Inconclusive("expected string, got %r" % (v,))


def mk_string(s):
    if isinstance(s, str):
        s = SStr.lit(s)
    return StringObj(s)


def as_list(v):
    """python list view (shared) + bounds of a Vec / slice / array"""
    v = deref(v)
    if isinstance(v, VecObj):
        return v.items, 0, len(v.items)
    if isinstance(v, SliceRef):
        return v.lst, v.start, v.end
    if type(v) is Agg and v.ty in ("array", "tuple"):
        return v.fields, 0, len(v.fields)
    raise Inconclusive("expected sequence, got %r" % (v,))


def seq_items(v):
    lst, a, b = as_list(v)
    return lst[a:b]


def clone_value(ctx, v):
    t = type(v)
    if t is Agg:
        return Agg(v.ty, v.variant, [clone_value(ctx, f) for f in v.fields])
    if t is VecObj:
        return VecObj([clone_value(ctx, x) for x in v.items])
    if t is StringObj:
        return StringObj(v.s)
    if t is MapObj:
        m = MapObj(v.kind, v.is_set, v.key_ty)
        m.entries = [[clone_value(ctx, k), clone_value(ctx, x)] for k, x in v.entries]
        return m
    if t is BoxObj:
        if v.kind == "Arc":
            return v
        return BoxObj(clone_value(ctx, v.fields[0]), v.kind)
    if t is IterObj:
        it = IterObj(v.nxt, v.kind, dict(v.meta) if v.meta else None)
        return it
    if t is LruObj:
        raise Inconclusive("clone of LruCache")
    return v


def generic_arg(cty, i=0, seg=-1):
    """i-th generic argument of path segment `seg` of the callee"""
    try:
        if cty.kind == "path":
            return cty.a[seg][1][i]
        if cty.kind == "qpath":
            return cty.c[seg][1][i]
    except IndexError:
        return None
    return None


def b_and(*xs):
    out = []
    for x in xs:
        if x is False:
            return False
        if x is True:
            continue
        out.append(x)
    if not out:
        return True
    return out[0] if len(out) == 1 else z3.And(*out)


def b_or(*xs):
    out = []
    for x in xs:
        if x is True:
            return True
        if x is False:
            continue
        out.append(x)
    if not out:
        return False
    return out[0] if len(out) == 1 else z3.Or(*out)


def b_not(x):
    if isinstance(x, bool):
        return not x
    return z3.Not(x)


def struct_eq(ctx, a, b):
    """structural equality (derive(PartialEq)-like); bool or z3 Bool. Crate types with a hand written
    PartialEq are compared by executing their MIR."""
    a = deref(a)
    b = deref(b)
    if isinstance(a, (int, bool)) or is_sym(a):
        return ctx.values_eq(a, b)
    if isinstance(a, SStr) or isinstance(a, StringObj):
        return as_sstr(a).eq(as_sstr(b))
    ta = type(a)
    if ta is Agg and a.ty == "serde_json::Value" and not (type(b) is Agg):
        # PartialEq<str / String / integers / bool> for Value
        if isinstance(b, (SStr, StringObj)):
            return as_sstr(a).eq(as_sstr(b)) if a.variant == 3 else False
        if isinstance(b, bool):
            return ctx.values_eq(a.fields[0], b) if a.variant == 1 else False
        if isinstance(b, int) or is_sym(b):
            n = a.fields[0].fields[0] if a.variant == 2 else None
            return ctx.values_eq(n, b) if (n is not None and not isinstance(n, Opaque)) else False
    if type(b) is Agg and b.ty == "serde_json::Value" and not (ta is Agg):
        return struct_eq(ctx, b, a)
    if ta is Agg:
        if type(b) is not Agg:
            raise Inconclusive("eq %r %r" % (a, b))
        f = ctx.prog.traitimpl.get(("PartialEq", Program._last(a.ty), "eq"))
        if f is not None:
            r = ctx.call_function(f, [new_ref(a), new_ref(b)])
            return r
        if a.variant != b.variant:
            return False
        if a.ty == "serde_json::Number":
            return num_eq(a, b)
        if len(a.fields) != len(b.fields):
            return False
        return b_and(*[struct_eq(ctx, x, y) for x, y in zip(a.fields, b.fields)])
    if ta is VecObj or ta is SliceRef:
        xs, ys = seq_items(a), seq_items(b)
        if len(xs) != len(ys):
            return False
        return b_and(*[struct_eq(ctx, x, y) for x, y in zip(xs, ys)])
    if ta is MapObj:
        if len(a.entries) != len(b.entries):
            return False
        if a.kind == "hash":
            # order-insensitive: every entry of a has an equal entry in b (sizes equal, keys distinct)
            conj = []
            for k, v in a.entries:
                alts = []
                for k2, v2 in b.entries:
                    alts.append(b_and(struct_eq(ctx, k, k2), True if a.is_set else struct_eq(ctx, v, v2)))
                conj.append(b_or(*alts))
            return b_and(*conj)
        return b_and(*[b_and(struct_eq(ctx, k, k2), True if a.is_set else struct_eq(ctx, v, v2))
                       for (k, v), (k2, v2) in zip(a.entries, b.entries)])
    if ta is Ref or ta is BoxObj:
        return struct_eq(ctx, deref(a), deref(b))
    if a is None and b is None:
        return True
    raise Inconclusive("struct_eq on %r / %r" % (a, b))


def num_eq(a, b):
    x, y = a.fields[0], b.fields[0]
    if isinstance(x, Opaque) or isinstance(y, Opaque):
        if isinstance(x, Opaque) and isinstance(y, Opaque):
            return x.data == y.data
        return False
    if isinstance(x, int) and isinstance(y, int):
        return x == y
    return x == y


def key_cmp(ctx, a, b):
    """three-way comparison: returns -1/0/1 (deciding with the solver, may fork)"""
    a = deref(a)
    b = deref(b)
    if isinstance(a, (SStr, StringObj)):
        x, y = as_sstr(a), as_sstr(b)
        if x.is_concrete() and y.is_concrete():
            cx, cy = x.concrete(), y.concrete()
            return -1 if cx < cy else (0 if cx == cy else 1)
        if ctx.decide(x.eq(y)):
            return 0
        return -1 if ctx.decide(x.lt(y)) else 1
    if isinstance(a, (int, bool)) or is_sym(a):
        if isinstance(a, (int, bool)) and isinstance(b, (int, bool)):
            return -1 if a < b else (0 if a == b else 1)
        if ctx.decide(a == b):
            return 0
        return -1 if ctx.decide(a < b) else 1
    if type(a) is Agg:
        f = ctx.prog.traitimpl.get(("Ord", Program._last(a.ty), "cmp"))
        if f is not None:
            r = ctx.call_function(f, [new_ref(a), new_ref(b)])
            return r.variant - 1
        if a.variant != b.variant:
            return -1 if a.variant < b.variant else 1
        for x, y in zip(a.fields, b.fields):
            c = key_cmp(ctx, x, y)
            if c != 0:
                return c
        return 0
    if type(a) is Ref and type(b) is Ref:
        ka, kb = a.key(), b.key()
        return -1 if ka < kb else (0 if ka == kb else 1)
    raise Inconclusive("key_cmp on %r / %r" % (a, b))


def key_eq(ctx, a, b):
    """equality decision for map keys (forks)"""
    a1, b1 = deref(a), deref(b)
    if type(a1) is Ref or type(b1) is Ref:
        return a1.key() == b1.key()
    return ctx.decide(struct_eq(ctx, a1, b1))


def raw_key_eq(ctx, a, b):
    """for maps keyed by raw pointers"""
    if type(a) is Ref and type(b) is Ref:
        return a.key() == b.key()
    return key_eq(ctx, a, b)


# ---- finite maps
def map_find(ctx, m, key):
    """index of the entry whose key equals `key`, or None"""
    ptr_keys = m.key_ty == "ptr"
    if ptr_keys and type(key) is Ref:
        # lookups pass `&K` where K is itself a raw pointer: compare the pointer values
        inner = key.get()
        if type(inner) is Ref:
            key = inner
    for i, e in enumerate(m.entries):
        if ptr_keys:
            if raw_key_eq(ctx, e[0], key):
                return i
        elif key_eq(ctx, e[0], key):
            return i
    return None


def map_insert(ctx, m, key, val):
    """returns old value or None"""
    i = map_find(ctx, m, key)
    if i is not None:
        old = m.entries[i][1]
        m.entries[i][1] = val
        return old
    if m.kind == "hash":
        m.entries.append([key, val])
    else:
        pos = len(m.entries)
        for j, e in enumerate(m.entries):
            if key_cmp(ctx, key, e[0]) < 0:
                pos = j
                break
        m.entries.insert(pos, [key, val])
    return None


def nd_allowed(ctx):
    """bounded deviation: at most opts['nd_budget'] iteration events per path may use a non-canonical order"""
    b = ctx.opts.get("nd_budget")
    return b is None or ctx.__dict__.setdefault("_nd_used", 0) < b


def nd_spend(ctx):
    ctx.__dict__["_nd_used"] = ctx.__dict__.get("_nd_used", 0) + 1


def map_order(ctx, m):
    """iteration order of a map: sorted maps in order; hash maps in a nondeterministic permutation"""
    n = len(m.entries)
    idx = list(range(n))
    if m.kind != "hash" or n <= 1:
        return idx
    mode = ctx.opts.get("hash_order", "all")
    if mode == "fixed":
        return idx
    if mode == "all" and n <= ctx.perm_limit:
        out = []
        rest = idx
        while len(rest) > 1:
            c = ctx.choose(len(rest), "hashorder")
            out.append(rest[c])
            rest = rest[:c] + rest[c + 1:]
        out.extend(rest)
        return out
    if not nd_allowed(ctx):
        return idx
    c = ctx.choose(2, "hashorder2")
    if c == 1:
        nd_spend(ctx)
    return idx if c == 0 else idx[::-1]


def perm_choice(ctx, n, label):
    idx = list(range(n))
    if n <= 1:
        return idx
    mode = ctx.opts.get("par_order", "all")
    if mode == "fixed":
        return idx
    if mode == "all" and n <= ctx.perm_limit:
        out = []
        rest = idx
        while len(rest) > 1:
            c = ctx.choose(len(rest), label)
            out.append(rest[c])
            rest = rest[:c] + rest[c + 1:]
        out.extend(rest)
        return out
    if not nd_allowed(ctx):
        return idx
    c = ctx.choose(2, label + "2")
    if c == 1:
        nd_spend(ctx)
    return idx if c == 0 else idx[::-1]


# ---- iterators
def seq_iter(items, kind="iter", meta=None):
    """iterator over a python list of ready-made items (double ended)"""
    st = {"items": items, "lo": 0, "hi": len(items)}
    if meta:
        st.update(meta)

    def nxt():
        if st["lo"] >= st["hi"]:
            return STOP
        v = st["items"][st["lo"]]
        st["lo"] += 1
        return v
    it = IterObj(nxt, kind, st)
    return it


def iter_next(ctx, it):
    it = deref(it)
    if not isinstance(it, IterObj):
        if type(it) is Agg and it.ty.endswith("ops::Range"):
            lo, hi = it.fields
            if ctx.decide(lo < hi):
                it.fields[0] = lo + 1
                return lo
            return STOP
        if type(it) is Agg and it.ty.endswith("ops::RangeInclusive"):
            lo, hi = it.fields[0], it.fields[1]
            if len(it.fields) > 2 and it.fields[2] is True:
                return STOP
            if ctx.decide(lo < hi):
                it.fields[0] = lo + 1
                return lo
            if ctx.decide(lo == hi):
                if len(it.fields) > 2:
                    it.fields[2] = True
                else:
                    it.fields.append(True)
                return lo
            return STOP
        raise Inconclusive("next() on %r" % (it,))
    return it.nxt()


def iter_drain(ctx, it):
    out = []
    while True:
        v = iter_next(ctx, it)
        if v is STOP:
            return out
        out.append(v)


def to_iter(ctx, v):
    """IntoIterator for runtime values"""
    v0 = v
    v = deref1(v) if not isinstance(v, IterObj) else v
    if isinstance(v, IterObj):
        return v
    by_ref = type(v0) is Ref
    if isinstance(v, VecObj):
        if by_ref:
            return seq_iter([Ref(v.items, i) for i in range(len(v.items))], "slice")
        return seq_iter(list(v.items), "vec_into")
    if isinstance(v, SliceRef):
        return seq_iter([Ref(v.lst, i) for i in range(v.start, v.end)], "slice")
    if type(v) is Agg and v.ty == "array":
        if by_ref:
            return seq_iter([Ref(v.fields, i) for i in range(len(v.fields))], "slice")
        return seq_iter(list(v.fields), "array_into")
    if isinstance(v, MapObj):
        order = map_order(ctx, v)
        if by_ref:
            if v.is_set:
                return seq_iter([Ref(v.entries[i], 0) for i in order], "set")
            return seq_iter([tup(Ref(v.entries[i], 0), Ref(v.entries[i], 1, v0.mut)) for i in order], "map")
        ents = [v.entries[i] for i in order]
        if v.is_set:
            return seq_iter([e[0] for e in ents], "set_into")
        return seq_iter([tup(e[0], e[1]) for e in ents], "map_into")
    if isinstance(v, (SStr, StringObj)):
        s = as_sstr(v)
        n = s.known_len()
        if n is None:
            raise Inconclusive("byte iteration over unknown-length string")
        return seq_iter([new_ref(s.byte_at(i)) for i in range(n)], "bytes")
    if type(v) is Agg and v.ty == "std::option::Option":
        return seq_iter(list(v.fields) if v.variant == 1 else [], "option")
    if type(v) is Agg and v.ty == "std::result::Result":
        # Result<T, E> iterates over the Ok value (an Err yields nothing)
        if by_ref:
            return seq_iter([Ref(v.fields, 0)] if v.variant == 0 else [], "result")
        return seq_iter([v.fields[0]] if v.variant == 0 else [], "result")
    if type(v) is Agg and (v.ty.endswith("ops::Range") or v.ty.endswith("ops::RangeInclusive")):
        return v0
    raise Inconclusive("into_iter on %r" % (v,))
