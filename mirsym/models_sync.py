"""Models: Mutex / RwLock / RefCell (single client thread, re-acquisition = self-deadlock), rayon
(sequentialised in a nondeterministic order), std::env."""
import z3
from .models import *
from .values import *
from .sstr import SStr
from .interp import Inconclusive


@model("std::sync::Mutex::new")
def m_mutex_new(ctx, cty, a):
    return LockObj(a[0], "Mutex")


@model("std::sync::RwLock::new")
def m_rwlock_new(ctx, cty, a):
    return LockObj(a[0], "RwLock")


@model("std::cell::RefCell::new")
def m_refcell_new(ctx, cty, a):
    return LockObj(a[0], "RefCell")


def deadlock(ctx, lock, how):
    raise PanicPath("self-deadlock: %s of %s#%d while already held by this thread (std locks are not re-entrant; the call never returns)"
                    % (how, lock.kind, lock.uid), "deadlock")


@model("std::sync::Mutex::lock")
def m_mutex_lock(ctx, cty, a):
    l = deref1(a[0])
    if l.writers > 0:
        deadlock(ctx, l, "lock()")
    l.writers += 1
    return res_ok(GuardObj(l, True))


@model("std::sync::Mutex::try_lock")
def m_mutex_try_lock(ctx, cty, a):
    l = deref1(a[0])
    if l.writers > 0:
        return res_err(ErrObj(SStr.lit("WouldBlock")))
    l.writers += 1
    return res_ok(GuardObj(l, True))


@model("std::sync::RwLock::read")
def m_rwlock_read(ctx, cty, a):
    l = deref1(a[0])
    if l.writers > 0:
        deadlock(ctx, l, "read()")
    l.readers += 1
    return res_ok(GuardObj(l, False))


@model("std::sync::RwLock::write")
def m_rwlock_write(ctx, cty, a):
    l = deref1(a[0])
    if l.writers > 0 or l.readers > 0:
        deadlock(ctx, l, "write()")
    l.writers += 1
    return res_ok(GuardObj(l, True))


@model("std::sync::Mutex::get_mut", "std::sync::RwLock::get_mut")
def m_lock_get_mut(ctx, cty, a):
    l = deref1(a[0])
    return res_ok(Ref(l.fields, 0, True))


@model("std::sync::Mutex::into_inner", "std::sync::RwLock::into_inner")
def m_lock_into_inner(ctx, cty, a):
    return res_ok(a[0].fields[0])


@model("std::cell::RefCell::into_inner")
def m_refcell_into_inner(ctx, cty, a):
    return a[0].fields[0]


@model("std::cell::RefCell::borrow")
def m_refcell_borrow(ctx, cty, a):
    l = deref1(a[0])
    if l.writers > 0:
        raise PanicPath("RefCell already mutably borrowed", "borrow")
    l.readers += 1
    return GuardObj(l, False)


@model("std::cell::RefCell::borrow_mut")
def m_refcell_borrow_mut(ctx, cty, a):
    l = deref1(a[0])
    if l.writers > 0 or l.readers > 0:
        raise PanicPath("RefCell already borrowed", "borrow")
    l.writers += 1
    return GuardObj(l, True)


# ------------------------------------------------------------------ rayon (sequentialised)
def par_items(ctx, it_or_coll):
    items = iter_drain(ctx, to_iter(ctx, it_or_coll))
    order = perm_choice(ctx, len(items), "parorder")
    return [items[i] for i in order]


@model("<_ as rayon::iter::IntoParallelRefIterator>::par_iter", "<_ as rayon::iter::IntoParallelIterator>::into_par_iter",
       "<_ as rayon::iter::IntoParallelRefMutIterator>::par_iter_mut")
def m_par_iter(ctx, cty, a):
    v = a[0]
    if cty.c[0][0] == "par_iter_mut" and type(v) is Ref:
        v = Ref(v.lst, v.idx, True)
    old = ctx.opts.get("hash_order")
    # the order in which the worker pool visits elements is modelled by perm_choice below;
    # the underlying collection is taken in its canonical order
    ctx.opts["hash_order"] = "fixed"
    try:
        items = iter_drain(ctx, to_iter(ctx, v))
    finally:
        if old is None:
            ctx.opts.pop("hash_order", None)
        else:
            ctx.opts["hash_order"] = old
    order = perm_choice(ctx, len(items), "parorder")
    return seq_iter([items[i] for i in order], "par")


PI = "<_ as rayon::iter::ParallelIterator>::"

from . import models_core as _mc

REG.exact[PI + "for_each"] = _mc.m_it_for_each
REG.exact[PI + "map"] = _mc.m_it_map
REG.exact[PI + "filter"] = _mc.m_it_filter
REG.exact[PI + "filter_map"] = _mc.m_it_filter_map
REG.exact[PI + "collect"] = _mc.m_it_collect
REG.exact[PI + "count"] = _mc.m_it_count
REG.exact[PI + "cloned"] = _mc.m_it_cloned


@model(PI + "any")
def m_par_any(ctx, cty, a):
    # every element may be visited (no short circuit guarantee); result is the disjunction
    src, f = a[0], new_ref(a[1], True)
    res = False
    while True:
        v = iter_next(ctx, src)
        if v is STOP:
            return res
        if ctx.decide(ctx.call_closure(f, [v])):
            res = True


@model(PI + "all")
def m_par_all(ctx, cty, a):
    src, f = a[0], new_ref(a[1], True)
    res = True
    while True:
        v = iter_next(ctx, src)
        if v is STOP:
            return res
        if not ctx.decide(ctx.call_closure(f, [v])):
            res = False


# ------------------------------------------------------------------ env
@model("std::env::var")
def m_env_var(ctx, cty, a):
    k = as_sstr(a[0]).concrete()
    v = ctx.env.get(k)
    if v is None:
        return res_err(Agg("std::env::VarError", 0, []))
    return res_ok(StringObj(SStr.lit(str(v))))
