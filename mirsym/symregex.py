"""Regex matching over segmented symbolic strings (subset: literals, \\d, \\w, +, ?, groups)."""
from .interp import Inconclusive


def sym_captures(ctx, rx, s):
    raise Inconclusive("regex on symbolic string not modelled yet: %s" % rx.pattern)
