"""Regex matching over byte strings with symbolic bytes.

A backtracking matcher (leftmost-first, greedy — the semantics of the `regex` crate's `captures` for the
constructs supported here) whose character tests are decided by the solver. Supported: literals, `\\d`, `\\w`,
`\\s`, `.`, character sets, greedy `+ * ? {m,n}`, groups (named / numbered), concatenation, alternation.
Symbolic bytes are ASCII by construction; concrete non-ASCII bytes make the match inconclusive.
"""
import re
import z3
from .interp import Inconclusive
from .sstr import SStr

try:
    import re._parser as sre_parse
    import re._constants as sre_c
except ImportError:  # pragma: no cover
    import sre_parse
    import sre_constants as sre_c


class Fail(Exception):
    pass


def char_test(ctx, c, node):
    """does byte c match the single-character node? (forks when undecided)"""
    op, av = node
    if op is sre_c.LITERAL:
        if type(c) is int:
            return c == av
        return ctx.decide(c == av)
    if op is sre_c.NOT_LITERAL:
        if type(c) is int:
            return c != av
        return ctx.decide(c != av)
    if op is sre_c.ANY:
        if type(c) is int:
            return c != 10
        return ctx.decide(c != 10)
    if op is sre_c.IN:
        neg = False
        items = av
        if items and items[0][0] is sre_c.NEGATE:
            neg = True
            items = items[1:]
        res = False
        for it in items:
            if set_item(ctx, c, it):
                res = True
                break
        return res != neg
    raise Inconclusive("regex node %r" % (op,))


def set_item(ctx, c, it):
    op, av = it
    if op is sre_c.LITERAL:
        return (c == av) if type(c) is int else ctx.decide(c == av)
    if op is sre_c.RANGE:
        lo, hi = av
        return (lo <= c <= hi) if type(c) is int else ctx.decide(z3.And(c >= lo, c <= hi))
    if op is sre_c.CATEGORY:
        return category(ctx, c, av)
    raise Inconclusive("regex set item %r" % (op,))


def category(ctx, c, cat):
    if type(c) is int and c >= 0x80:
        raise Inconclusive("regex class test on a non-ASCII byte")
    if cat is sre_c.CATEGORY_DIGIT:
        return ctx.char_in(c, "digit")
    if cat is sre_c.CATEGORY_NOT_DIGIT:
        return not ctx.char_in(c, "digit")
    if cat is sre_c.CATEGORY_WORD:
        return ctx.char_in(c, "word")
    if cat is sre_c.CATEGORY_NOT_WORD:
        return not ctx.char_in(c, "word")
    if cat is sre_c.CATEGORY_SPACE:
        if type(c) is int:
            return c in (9, 10, 11, 12, 13, 32)
        return ctx.decide(z3.Or(c == 32, z3.And(c >= 9, c <= 13)))
    raise Inconclusive("regex category %r" % (cat,))


class Matcher:
    def __init__(self, ctx, chars):
        self.ctx = ctx
        self.s = chars
        self.n = len(chars)
        self.steps = 0

    def m(self, nodes, i, pos, groups, k):
        """match nodes[i:] at pos, then continuation k(pos, groups); returns result of k or None"""
        self.steps += 1
        if self.steps > 200000:
            raise Inconclusive("regex step budget")
        if i == len(nodes):
            return k(pos, groups)
        op, av = nodes[i]
        if op in (sre_c.LITERAL, sre_c.NOT_LITERAL, sre_c.ANY, sre_c.IN):
            if pos >= self.n:
                return None
            if char_test(self.ctx, self.s[pos], (op, av)):
                return self.m(nodes, i + 1, pos + 1, groups, k)
            return None
        if op is sre_c.SUBPATTERN:
            gid, _af, _df, sub = av
            sub = list(sub)

            def after(p2, g2):
                g3 = g2
                if gid is not None:
                    g3 = dict(g2)
                    g3[gid] = (pos, p2)
                return self.m(nodes, i + 1, p2, g3, k)
            return self.m(sub, 0, pos, groups, after)
        if op in (sre_c.MAX_REPEAT, sre_c.MIN_REPEAT):
            lo, hi, sub = av
            sub = list(sub)
            greedy = op is sre_c.MAX_REPEAT
            if hi is sre_c.MAXREPEAT:
                hi = 1 << 30
            return self.rep(nodes, i, sub, lo, hi, greedy, 0, pos, groups, k)
        if op is sre_c.BRANCH:
            _, alts = av
            for alt in alts:
                r = self.m(list(alt), 0, pos, groups, lambda p2, g2: self.m(nodes, i + 1, p2, g2, k))
                if r is not None:
                    return r
            return None
        if op is sre_c.AT:
            if av in (sre_c.AT_BEGINNING, sre_c.AT_BEGINNING_STRING):
                return self.m(nodes, i + 1, pos, groups, k) if pos == 0 else None
            if av in (sre_c.AT_END, sre_c.AT_END_STRING):
                return self.m(nodes, i + 1, pos, groups, k) if pos == self.n else None
            raise Inconclusive("regex anchor %r" % (av,))
        raise Inconclusive("regex op %r" % (op,))

    def rep(self, nodes, i, sub, lo, hi, greedy, count, pos, groups, k):
        def more():
            if count >= hi:
                return None

            def after(p2, g2):
                if p2 == pos and count >= lo:
                    return None  # empty iteration
                return self.rep(nodes, i, sub, lo, hi, greedy, count + 1, p2, g2, k)
            return self.m(sub, 0, pos, groups, after)

        def stop():
            if count < lo:
                return None
            return self.m(nodes, i + 1, pos, groups, k)
        if greedy:
            r = more()
            if r is not None:
                return r
            return stop()
        r = stop()
        if r is not None:
            return r
        return more()


def _may_contain(ctx, chars, lit):
    from .sstr import CLASS_RANGES
    for c in chars:
        if type(c) is int:
            if c == lit:
                return True
        else:
            k = ctx.char_cls.get(c.get_id())
            if k is None or any(lo <= lit <= hi for lo, hi in CLASS_RANGES[k]):
                return True
    return False


def sym_captures(ctx, rx, s):
    """returns (named dict, index list) of SStr or None"""
    pat = sre_parse.parse(rx.pattern)
    nodes = list(pat)
    names = dict(pat.state.groupdict)
    ngroups = pat.state.groups
    chars = list(s.chars)
    for c in chars:
        if type(c) is int and c >= 0x80:
            raise Inconclusive("regex over text with non-ASCII bytes and symbolic parts")
    # literals that every match must contain: if one of them cannot occur in the text there is no match
    for op, av in nodes:
        if op is sre_c.LITERAL and not _may_contain(ctx, chars, av):
            return None
    mt = Matcher(ctx, chars)
    for start in range(0, len(chars) + 1):
        r = mt.m(nodes, 0, start, {}, lambda p2, g2: (p2, g2))
        if r is not None:
            end, groups = r
            idx = [SStr.of_chars(chars[start:end])]
            for g in range(1, ngroups):
                sp = groups.get(g)
                idx.append(None if sp is None else SStr.of_chars(chars[sp[0]:sp[1]]))
            named = {}
            for nm, g in names.items():
                sp = groups.get(g)
                named[nm] = None if sp is None else SStr.of_chars(chars[sp[0]:sp[1]])
            return named, idx
    return None
