"""Driver: dump MIR from the current /repo tree, load it, run harness functions symbolically."""
import os
import sys
import json
import time
import glob
import shutil
import subprocess
import tempfile
import multiprocessing

from .interp import Program, Ctx, Inconclusive
from . import models as _models
from . import models_core, models_coll, models_str, models_json, models_sync, models_misc, models_fs  # noqa: F401 (registration)

VERIF = os.path.dirname(os.path.dirname(os.path.abspath(__file__)))
CACHE = os.path.join(VERIF, ".cache")
HARNESS = os.path.join(VERIF, "harness")
REPO = os.environ.get("VERIF_REPO", "/repo")

STD_ENUMS = {
    "Option": ["None", "Some"], "Result": ["Ok", "Err"], "Ordering": ["Less", "Equal", "Greater"],
    "Value": ["Null", "Bool", "Number", "String", "Array", "Object"], "ControlFlow": ["Continue", "Break"],
    "Cow": ["Borrowed", "Owned"], "Entry": ["Vacant", "Occupied"], "Bound": ["Included", "Excluded", "Unbounded"],
    "VarError": ["NotPresent", "NotUnicode"],
}


def cargo_env():
    env = dict(os.environ)
    env["CARGO_NET_OFFLINE"] = "true"
    env["RUSTFLAGS"] = "--cfg melda_verif"
    env.pop("RUSTUP_TOOLCHAIN", None)
    return env


def dump_mir(log=None):
    """Dump MIR of melda (from /repo), yavomrs and the harness crate. Returns dict crate -> text."""
    os.makedirs(CACHE, exist_ok=True)
    lock_src = os.path.join(REPO, "Cargo.lock")
    if os.path.exists(lock_src):
        shutil.copy(lock_src, os.path.join(HARNESS, "Cargo.lock"))
    env = cargo_env()
    env["CARGO_TARGET_DIR"] = os.path.join(CACHE, "target-mir")
    out = {}
    for crate, pkg in (("melda", "melda"), ("yavomrs", "yavomrs"), ("verif_harness", "verif-harness")):
        # force re-emission: cargo skips rustc when nothing changed
        stamp = {"melda": os.path.join(REPO, "src", "lib.rs"), "verif_harness": os.path.join(HARNESS, "src", "lib.rs")}.get(crate)
        cmd = ["cargo", "+nightly", "rustc", "--offline", "-p", pkg, "--lib", "--", "-Zunpretty=mir",
               "-Ztrim-diagnostic-paths=no", "-C", "debug-assertions=off", "-C", "overflow-checks=on"]
        path = os.path.join(CACHE, crate + ".mir")
        for d in glob.glob(os.path.join(env["CARGO_TARGET_DIR"], "debug", ".fingerprint", pkg + "-*")):
            shutil.rmtree(d, ignore_errors=True)
        for attempt in range(2):
            t = time.time()
            p = subprocess.run(cmd, cwd=HARNESS, env=env, stdout=subprocess.PIPE, stderr=subprocess.PIPE)
            if p.returncode != 0:
                raise RuntimeError("MIR dump of %s failed:\n%s" % (crate, p.stderr.decode()[-3000:]))
            txt = p.stdout.decode()
            if txt.strip():
                break
            # empty output: cargo considered the crate fresh; touch a source file and retry
            for d in glob.glob(os.path.join(env["CARGO_TARGET_DIR"], "debug", ".fingerprint", pkg + "-*")):
                shutil.rmtree(d, ignore_errors=True)
        if not txt.strip():
            raise RuntimeError("empty MIR dump for %s" % crate)
        open(path, "w").write(txt)
        out[crate] = txt
        if log:
            log("mir %s: %d lines in %.1fs" % (crate, txt.count("\n"), time.time() - t))
    return out


def load_program(mirs):
    prog = Program()
    prog.rel_base = HARNESS
    for name, vs in STD_ENUMS.items():
        prog.enums[name] = vs
    for d in (os.path.join(REPO, "src"), os.path.join(HARNESS, "src")):
        for f in sorted(glob.glob(os.path.join(d, "*.rs"))):
            prog.scan_source(f)
    for f in glob.glob(os.path.expanduser("~/.cargo/registry/src/*/yavomrs-0.1.1/src/*.rs")):
        prog.scan_source(f)
    for crate in ("melda", "yavomrs", "verif_harness"):
        if crate in mirs:
            prog.add_crate(crate, mirs[crate])
    return prog


# scratch directories of explorations in progress (removed by the driver when it is told to stop)
LIVE_OUTDIRS = []


def run_harness(prog, fn_name, params=(), opts=None, workers=None, budget_s=600):
    """Explore all paths of harness function `fn_name` (in crate verif_harness). Returns list of records."""
    f = prog.funcs.get("verif_harness::" + fn_name)
    if f is None:
        raise KeyError("harness function %s not found" % fn_name)
    outdir = tempfile.mkdtemp(prefix="mirsym-", dir="/dev/shm" if os.path.isdir("/dev/shm") else None)
    LIVE_OUTDIRS.append(outdir)
    o = dict(opts or {})
    o["params"] = list(params)
    o["deadline"] = time.time() + budget_s
    workers = workers or int(os.environ.get("VERIF_WORKERS", "16"))
    t0 = time.time()
    pid = os.fork()
    if pid == 0:
        # exploration root (own process so that the driver's state is never touched)
        try:
            sys.setrecursionlimit(20000)
            ctx = Ctx(prog, _models.REG, outdir, o)
            ctx.harness = fn_name
            ctx.sem = multiprocessing.Semaphore(max(0, workers - 1))
            ctx.is_child = True
            ctx.borrowed_token = True
            ctx.run_path(f, list(params))
        except BaseException as e:  # pragma: no cover
            import traceback
            with open(os.path.join(outdir, "root-crash.jsonl"), "a") as fh:
                fh.write(json.dumps({"status": "internal_error", "err": repr(e), "tb": traceback.format_exc()[-3000:]}) + "\n")
        os._exit(0)
    _, st = os.waitpid(pid, 0)
    recs = []
    for fn in glob.glob(os.path.join(outdir, "*.jsonl")):
        for line in open(fn):
            line = line.strip()
            if line:
                recs.append(json.loads(line))
    shutil.rmtree(outdir, ignore_errors=True)
    if outdir in LIVE_OUTDIRS:
        LIVE_OUTDIRS.remove(outdir)
    if st != 0:
        recs.append({"status": "internal_error", "err": "explorer root exited with status %r" % st})
    return recs, time.time() - t0


def summarize(recs):
    s = {"paths": 0, "ok": 0, "panic": 0, "pruned": 0, "unmodelled": 0, "inconclusive": 0, "internal_error": 0,
         "stmts": 0, "calls": 0, "queries": 0, "solver_time": 0.0, "forks": 0, "reached": 0, "funcs": {}, "assumptions": set()}
    for r in recs:
        st = r["status"]
        if st == "stats":
            for k in ("stmts", "calls", "queries", "solver_time", "forks"):
                s[k] += r[k]
            for k, v in r["funcs"].items():
                if k.startswith("@fork "):
                    s["funcs"][k] = s["funcs"].get(k, 0) + v
                else:
                    s["funcs"][k] = v
            s["assumptions"].update(r["assumptions"])
        else:
            s["paths"] += 1
            s[st] += 1
            if r.get("reached"):
                s["reached"] += 1
    return s
