"""Models: panics, Option/Result, Clone/Deref, mem, Vec/slice, iterators."""
import z3
from .models import *
from .values import *
from .sstr import SStr
from .interp import Inconclusive


# ------------------------------------------------------------------ panics
@model("core::panicking::panic", "std::rt::begin_panic", "core::panicking::panic_fmt", "core::panicking::panic_display",
       "core::panicking::panic_explicit", "core::panicking::unreachable_display", "core::panicking::panic_nounwind",
       "std::rt::panic_fmt", "core::panicking::panic_const::panic_const_add_overflow")
def m_panic(ctx, cty, args):
    msg = "panic"
    if args:
        a = deref(args[0])
        if isinstance(a, SStr) and a.is_concrete():
            msg = a.concrete()
        elif type(a) is Agg and a.ty == "fmt::Arguments":
            from .models_str import render_arguments
            s = render_arguments(ctx, a)
            msg = s.concrete() if s.is_concrete() else repr(s)
    raise PanicPath(msg, "panic")


@model_re(r"core::panicking::(assert_failed|assert_matches_failed|panic_bounds_check|panic_const::.*)")
def m_assert_failed(ctx, cty, args):
    raise PanicPath("assertion failed (%s)" % cty.head(), "assert")


@model("core::option::unwrap_failed", "core::option::expect_failed", "core::result::unwrap_failed")
def m_unwrap_failed(ctx, cty, args):
    raise PanicPath("unwrap failed", "unwrap")


# ------------------------------------------------------------------ Option
OPT = "std::option::Option::"
RES = "std::result::Result::"


def is_some(o):
    return o.variant == 1


def errmsg(e):
    e = deref(e)
    if isinstance(e, ErrObj):
        m = e.msg
        if isinstance(m, SStr):
            return m.concrete() if m.is_concrete() else repr(m)
        return str(m)
    return repr(e)


@model(OPT + "unwrap")
def m_opt_unwrap(ctx, cty, a):
    o = a[0]
    if o.variant == 1:
        return o.fields[0]
    raise PanicPath("called `Option::unwrap()` on a `None` value", "unwrap")


@model(OPT + "expect")
def m_opt_expect(ctx, cty, a):
    o = a[0]
    if o.variant == 1:
        return o.fields[0]
    raise PanicPath("Option::expect: " + as_sstr(a[1]).concrete(), "unwrap")


@model(OPT + "is_some")
def m_opt_is_some(ctx, cty, a):
    return deref(a[0]).variant == 1


@model(OPT + "is_none")
def m_opt_is_none(ctx, cty, a):
    return deref(a[0]).variant == 0


@model(OPT + "as_ref", OPT + "as_mut")
def m_opt_as_ref(ctx, cty, a):
    o = deref(a[0])
    if o.variant == 1:
        return opt_some(Ref(o.fields, 0, True))
    return opt_none()


@model(OPT + "as_deref")
def m_opt_as_deref(ctx, cty, a):
    o = deref(a[0])
    if o.variant == 1:
        v = deref(o.fields[0])
        if isinstance(v, StringObj):
            return opt_some(v.s)
        if isinstance(v, VecObj):
            return opt_some(SliceRef(v.items))
        return opt_some(Ref(o.fields, 0))
    return opt_none()


@model(OPT + "map")
def m_opt_map(ctx, cty, a):
    o = a[0]
    if o.variant == 1:
        return opt_some(ctx.call_closure(a[1], [o.fields[0]]))
    return opt_none()


@model(OPT + "and_then")
def m_opt_and_then(ctx, cty, a):
    o = a[0]
    if o.variant == 1:
        return ctx.call_closure(a[1], [o.fields[0]])
    return opt_none()


@model(OPT + "is_none_or")
def m_opt_is_none_or(ctx, cty, a):
    o = a[0]
    if o.variant == 0:
        return True
    return ctx.call_closure(a[1], [o.fields[0]])


@model(OPT + "is_some_and")
def m_opt_is_some_and(ctx, cty, a):
    o = a[0]
    if o.variant == 0:
        return False
    return ctx.call_closure(a[1], [o.fields[0]])


@model(OPT + "ok_or_else")
def m_opt_ok_or_else(ctx, cty, a):
    o = a[0]
    if o.variant == 1:
        return res_ok(o.fields[0])
    return res_err(ctx.call_closure(a[1], []))


@model(OPT + "ok_or")
def m_opt_ok_or(ctx, cty, a):
    o = a[0]
    if o.variant == 1:
        return res_ok(o.fields[0])
    return res_err(a[1])


@model(OPT + "unwrap_or")
def m_opt_unwrap_or(ctx, cty, a):
    o = a[0]
    return o.fields[0] if o.variant == 1 else a[1]


@model(OPT + "unwrap_or_else")
def m_opt_unwrap_or_else(ctx, cty, a):
    o = a[0]
    return o.fields[0] if o.variant == 1 else ctx.call_closure(a[1], [])


@model(OPT + "unwrap_or_default")
def m_opt_unwrap_or_default(ctx, cty, a):
    o = a[0]
    if o.variant == 1:
        return o.fields[0]
    return default_for(ctx, generic_arg(cty, 0, -2))


@model(OPT + "take")
def m_opt_take(ctx, cty, a):
    r = a[0]
    o = r.get()
    r.set(opt_none())
    return o


@model(OPT + "cloned", OPT + "copied")
def m_opt_cloned(ctx, cty, a):
    o = a[0]
    if o.variant == 1:
        return opt_some(clone_value(ctx, deref1(o.fields[0])))
    return opt_none()


@model(OPT + "ok")
def m_opt_ok(ctx, cty, a):
    return a[0]


@model(OPT + "filter")
def m_opt_filter(ctx, cty, a):
    o = a[0]
    if o.variant == 1 and ctx.decide(ctx.call_closure(a[1], [Ref(o.fields, 0)])):
        return o
    return opt_none()


@model("<std::option::Option as std::ops::Try>::branch")
def m_opt_branch(ctx, cty, a):
    o = a[0]
    if o.variant == 1:
        return Agg("std::ops::ControlFlow", 0, [o.fields[0]])
    return Agg("std::ops::ControlFlow", 1, [opt_none()])


@model("<std::option::Option as std::ops::FromResidual>::from_residual")
def m_opt_from_residual(ctx, cty, a):
    return opt_none()


# ------------------------------------------------------------------ Result
@model(RES + "unwrap")
def m_res_unwrap(ctx, cty, a):
    r = a[0]
    if r.variant == 0:
        return r.fields[0]
    raise PanicPath("called `Result::unwrap()` on an `Err` value: " + errmsg(r.fields[0]), "unwrap")


@model(RES + "expect")
def m_res_expect(ctx, cty, a):
    r = a[0]
    if r.variant == 0:
        return r.fields[0]
    raise PanicPath("Result::expect: %s: %s" % (as_sstr(a[1]).concrete(), errmsg(r.fields[0])), "unwrap")


@model(RES + "unwrap_err")
def m_res_unwrap_err(ctx, cty, a):
    r = a[0]
    if r.variant == 1:
        return r.fields[0]
    raise PanicPath("unwrap_err on Ok", "unwrap")


@model(RES + "is_ok")
def m_res_is_ok(ctx, cty, a):
    return deref(a[0]).variant == 0


@model(RES + "is_err")
def m_res_is_err(ctx, cty, a):
    return deref(a[0]).variant == 1


@model(RES + "ok")
def m_res_ok(ctx, cty, a):
    r = a[0]
    if r.variant == 0:
        return opt_some(r.fields[0])
    ctx.drop_value(r.fields[0])
    return opt_none()


@model(RES + "err")
def m_res_err(ctx, cty, a):
    r = a[0]
    return opt_some(r.fields[0]) if r.variant == 1 else opt_none()


@model(RES + "map")
def m_res_map(ctx, cty, a):
    r = a[0]
    if r.variant == 0:
        return res_ok(ctx.call_closure(a[1], [r.fields[0]]))
    return r


@model(RES + "map_err")
def m_res_map_err(ctx, cty, a):
    r = a[0]
    if r.variant == 1:
        return res_err(ctx.call_closure(a[1], [r.fields[0]]))
    return r


@model(RES + "and_then")
def m_res_and_then(ctx, cty, a):
    r = a[0]
    if r.variant == 0:
        return ctx.call_closure(a[1], [r.fields[0]])
    return r


@model(RES + "unwrap_or_else")
def m_res_unwrap_or_else(ctx, cty, a):
    r = a[0]
    if r.variant == 0:
        return r.fields[0]
    return ctx.call_closure(a[1], [r.fields[0]])


@model(RES + "unwrap_or")
def m_res_unwrap_or(ctx, cty, a):
    r = a[0]
    return r.fields[0] if r.variant == 0 else a[1]


@model(RES + "as_ref", RES + "as_mut")
def m_res_as_ref(ctx, cty, a):
    r = deref(a[0])
    return Agg(r.ty, r.variant, [Ref(r.fields, 0, True)])


@model("<std::result::Result as std::ops::Try>::branch")
def m_res_branch(ctx, cty, a):
    r = a[0]
    if r.variant == 0:
        return Agg("std::ops::ControlFlow", 0, [r.fields[0]])
    return Agg("std::ops::ControlFlow", 1, [res_err(r.fields[0])])


@model("<std::result::Result as std::ops::FromResidual>::from_residual")
def m_res_from_residual(ctx, cty, a):
    r = a[0]
    e = r.fields[0]
    if not isinstance(e, ErrObj):
        e = ErrObj(e)
    return res_err(e)


# ------------------------------------------------------------------ Clone / Deref / conversions / mem
@model("<_ as std::clone::Clone>::clone")
def m_clone(ctx, cty, a):
    return clone_value(ctx, deref1(a[0]))


@model("<_ as std::borrow::ToOwned>::to_owned")
def m_to_owned(ctx, cty, a):
    v = deref1(a[0])
    if isinstance(v, SStr):
        selfty = cty.a
        if selfty.kind == "slice" or (selfty.kind == "path" and selfty.head() == "str"):
            return StringObj(v)
        return StringObj(v)
    if isinstance(v, SliceRef):
        return VecObj([clone_value(ctx, x) for x in v.items()])
    return clone_value(ctx, v)


@model("<_ as std::ops::Deref>::deref", "<_ as std::ops::DerefMut>::deref_mut", "<_ as std::convert::AsRef>::as_ref",
       "<_ as std::borrow::Borrow>::borrow", "<_ as std::convert::AsMut>::as_mut", "<_ as std::borrow::BorrowMut>::borrow_mut")
def m_deref(ctx, cty, a):
    r = a[0]
    v = deref1(r)
    t = type(v)
    if t is StringObj:
        if cty.kind == "qpath" and cty.b is not None and cty.b.head().endswith("DerefMut") and cty.a is not None \
                and cty.a.kind == "path" and cty.a.head() == "std::vec::Vec":
            # &mut Vec<u8> -> &mut [u8]: a view that writes through
            return SliceRef(ByteCells(v))
        return v.s
    if t is VecObj:
        return SliceRef(v.items)
    if t is GuardObj:
        return Ref(v.lock.fields, 0, v.write)
    if t is BoxObj:
        return Ref(v.fields, 0, True)
    if t is SStr or t is SliceRef:
        return v
    if t is Ref:
        # &&T -> &T
        return v
    if t is Agg and v.ty == "serde_json::Value":
        return r
    if t is Opaque and v.what == "static":
        name = v.data
        if name not in ctx.lazy:
            f = ctx.prog.lazy_init.get(name)
            if f is None:
                raise Inconclusive("lazy static initialiser for %s not found" % name)
            ctx.lazy[name] = [ctx.call_function(f, [])]
        return Ref(ctx.lazy[name], 0)
    return r


@model("<_ as std::convert::Into>::into", "<_ as std::convert::From>::from")
def m_into(ctx, cty, a):
    v = a[0]
    if cty.kind == "qpath":
        if cty.c[0][0] == "into":
            target = cty.b.generics()[0] if cty.b.generics() else None
        else:
            target = cty.a
    else:
        target = None
    th = target.head() if target is not None else ""
    if th == "std::string::String":
        if isinstance(v, SStr):
            return StringObj(v)
        if isinstance(v, StringObj):
            return v
        v2 = deref(v)
        if isinstance(v2, (SStr, StringObj)):
            return StringObj(as_sstr(v2))
    if th == "std::vec::Vec":
        if isinstance(v, SStr):
            return StringObj(v)
        if isinstance(v, SliceRef):
            return VecObj([clone_value(ctx, x) for x in v.items()])
        if type(v) is Agg and v.ty == "array":
            return VecObj(list(v.fields))
        if isinstance(v, (VecObj, StringObj)):
            return v
    if th == "serde_json::Value":
        from .models_json import to_json_value
        return to_json_value(ctx, v)
    if th in ("anyhow::Error", "std::boxed::Box"):
        if isinstance(v, ErrObj):
            return v
        if th == "anyhow::Error":
            return ErrObj(v)
        return BoxObj(v)
    if th in INT_BITS or th in ("u64", "i64", "usize"):
        return v
    if th == "std::collections::BTreeSet" or th == "std::collections::BTreeMap" or th == "std::collections::HashMap" or th == "std::collections::HashSet":
        from .models_coll import collect_into
        return collect_into(ctx, target, seq_iter(list(seq_items(v))))
    if th == "std::sync::Arc" or th == "std::rc::Rc":
        return BoxObj(v, "Arc")
    if th == "std::path::PathBuf":
        return v
    # identity conversion T -> T
    return v


@model("std::mem::drop")
def m_drop(ctx, cty, a):
    ctx.drop_value(a[0])
    return unit()


@model("std::mem::forget")
def m_forget(ctx, cty, a):
    return unit()


@model("std::mem::replace")
def m_replace(ctx, cty, a):
    r = a[0]
    old = r.get()
    r.set(a[1])
    return old


@model("std::mem::swap")
def m_swap(ctx, cty, a):
    x, y = a[0].get(), a[1].get()
    a[0].set(y)
    a[1].set(x)
    return unit()


@model("std::mem::take")
def m_take(ctx, cty, a):
    r = a[0]
    old = r.get()
    if isinstance(old, VecObj):
        r.set(VecObj())
    elif isinstance(old, StringObj):
        r.set(StringObj(SStr()))
    elif isinstance(old, MapObj):
        r.set(MapObj(old.kind, old.is_set, old.key_ty))
    elif type(old) is Agg and old.ty == "std::option::Option":
        r.set(opt_none())
    else:
        raise Inconclusive("mem::take of %r" % (old,))
    return old


@model("std::hint::must_use", "anyhow::__private::must_use", "std::convert::identity", "std::hint::black_box")
def m_identity(ctx, cty, a):
    return a[0]


@model("std::boxed::Box::new")
def m_box_new(ctx, cty, a):
    return BoxObj(a[0])


@model("std::boxed::Box::new_uninit")
def m_box_new_uninit(ctx, cty, a):
    # MaybeUninit<T> { uninit: (), value: ManuallyDrop<MaybeDangling<T>> }
    return BoxObj(Agg("MaybeUninit", None, [unit(), Agg("ManuallyDrop", None, [Agg("MaybeDangling", None, [None])])]))


@model("std::mem::MaybeUninit::write", "std::boxed::Box::write")
def m_box_write(ctx, cty, a):
    b = deref1(a[0]) if not isinstance(a[0], BoxObj) else a[0]
    if isinstance(b, BoxObj):
        b.fields[0] = a[1]
        return b
    a[0].set(a[1])
    return a[0]


@model("std::boxed::box_assume_init_into_vec_unsafe")
def m_box_into_vec(ctx, cty, a):
    b = a[0]
    arr = b.fields[0]
    if type(arr) is Agg and arr.ty == "MaybeUninit":
        arr = arr.fields[1].fields[0].fields[0]
    if type(arr) is Agg:
        t = generic_arg(cty, 0)
        if t is not None and t.head() == "u8":
            raise Inconclusive("vec![u8 literals]")
        return VecObj(list(arr.fields))
    raise Inconclusive("box_assume_init_into_vec_unsafe on %r" % (arr,))


@model("std::slice::<impl [_]>::into_vec", "std::slice::hack::into_vec")
def m_slice_into_vec(ctx, cty, a):
    b = a[0]
    arr = deref(b)
    if type(arr) is Agg:
        return VecObj(list(arr.fields))
    raise Inconclusive("into_vec on %r" % (arr,))


@model("std::sync::Arc::new", "std::rc::Rc::new")
def m_arc_new(ctx, cty, a):
    return BoxObj(a[0], "Arc")


@model("std::sync::Arc::ptr_eq")
def m_arc_ptr_eq(ctx, cty, a):
    return deref1(a[0]) is deref1(a[1])


# ------------------------------------------------------------------ comparisons (generic)
@model("<_ as std::cmp::PartialEq>::eq")
def m_eq(ctx, cty, a):
    return struct_eq(ctx, a[0], a[1])


@model("<_ as std::cmp::PartialEq>::ne")
def m_ne(ctx, cty, a):
    return b_not(struct_eq(ctx, a[0], a[1]))


@model("<_ as std::cmp::Ord>::cmp")
def m_cmp(ctx, cty, a):
    return ordering(key_cmp(ctx, a[0], a[1]))


@model("<_ as std::cmp::PartialOrd>::partial_cmp")
def m_partial_cmp(ctx, cty, a):
    return opt_some(ordering(key_cmp(ctx, a[0], a[1])))


@model("<_ as std::cmp::PartialOrd>::lt")
def m_lt(ctx, cty, a):
    return key_cmp(ctx, a[0], a[1]) < 0


@model("<_ as std::cmp::PartialOrd>::le")
def m_le(ctx, cty, a):
    return key_cmp(ctx, a[0], a[1]) <= 0


@model("<_ as std::cmp::PartialOrd>::gt")
def m_gt(ctx, cty, a):
    return key_cmp(ctx, a[0], a[1]) > 0


@model("<_ as std::cmp::PartialOrd>::ge")
def m_ge(ctx, cty, a):
    return key_cmp(ctx, a[0], a[1]) >= 0


@model("<_ as std::cmp::Ord>::max", "std::cmp::max")
def m_max(ctx, cty, a):
    return a[1] if key_cmp(ctx, a[0], a[1]) <= 0 else a[0]


@model("<_ as std::cmp::Ord>::min", "std::cmp::min")
def m_min(ctx, cty, a):
    return a[0] if key_cmp(ctx, a[0], a[1]) <= 0 else a[1]


@model("std::cmp::Ordering::is_lt")
def m_is_lt(ctx, cty, a):
    return a[0].variant == 0


@model("std::cmp::Ordering::is_gt")
def m_is_gt(ctx, cty, a):
    return a[0].variant == 2


@model("std::cmp::Ordering::is_eq")
def m_is_eq(ctx, cty, a):
    return a[0].variant == 1


@model("std::cmp::Ordering::is_ne")
def m_is_ne(ctx, cty, a):
    return a[0].variant != 1


@model("std::cmp::Ordering::is_le")
def m_is_le(ctx, cty, a):
    return a[0].variant != 2


@model("std::cmp::Ordering::is_ge")
def m_is_ge(ctx, cty, a):
    return a[0].variant != 0


@model("std::cmp::Ordering::reverse")
def m_ord_reverse(ctx, cty, a):
    return Agg("std::cmp::Ordering", 2 - a[0].variant, [])


@model("std::cmp::Ordering::then")
def m_ord_then(ctx, cty, a):
    return a[0] if a[0].variant != 1 else a[1]


@model("std::cmp::Ordering::then_with")
def m_ord_then_with(ctx, cty, a):
    return a[0] if a[0].variant != 1 else ctx.call_closure(a[1], [])


# ------------------------------------------------------------------ Vec / slices
class ByteCells:
    """list-like view of the bytes of a Vec<u8> so that `v[i] = b` writes through"""
    def __init__(self, sobj):
        self.sobj = sobj

    def __getitem__(self, i):
        return self.sobj.s.byte_at(i)

    def __setitem__(self, i, b):
        cs = list(self.sobj.s.chars)
        cs[i] = b
        self.sobj.s = SStr.of_chars(cs)

    def __len__(self):
        return len(self.sobj.s.chars)


def is_u8(t):
    return t is not None and t.kind == "path" and t.head() == "u8"


@model("std::vec::Vec::new", "std::vec::Vec::with_capacity", "<std::vec::Vec as std::default::Default>::default")
def m_vec_new(ctx, cty, a):
    t = generic_arg(cty, 0, -2) if cty.kind == "path" else (cty.a.generics()[0] if cty.a.generics() else None)
    if is_u8(t):
        return StringObj(SStr())
    return VecObj()


@model("std::vec::Vec::push")
def m_vec_push(ctx, cty, a):
    v = deref1(a[0])
    if isinstance(v, StringObj):
        b = a[1]
        v.s = v.s.concat(byte_str(b))
    else:
        v.items.append(a[1])
    return unit()


def byte_str(b):
    return SStr.of_chars([b])


@model("std::vec::Vec::pop")
def m_vec_pop(ctx, cty, a):
    v = deref1(a[0])
    if isinstance(v, StringObj):
        raise Inconclusive("Vec<u8>::pop")
    if v.items:
        return opt_some(v.items.pop())
    return opt_none()


@model("std::vec::Vec::len", "core::slice::<impl [_]>::len", "std::collections::VecDeque::len")
def m_vec_len(ctx, cty, a):
    v = deref(a[0])
    if isinstance(v, (StringObj, SStr)):
        return as_sstr(v).length()
    lst, s, e = as_list(v)
    return e - s


@model("std::vec::Vec::is_empty", "core::slice::<impl [_]>::is_empty", "std::collections::VecDeque::is_empty")
def m_vec_is_empty(ctx, cty, a):
    v = deref(a[0])
    if isinstance(v, (StringObj, SStr)):
        n = as_sstr(v).length()
        return n == 0
    lst, s, e = as_list(v)
    return e == s


@model("std::vec::Vec::insert")
def m_vec_insert(ctx, cty, a):
    v = deref1(a[0])
    i = ctx.concretize(a[1], "Vec::insert index")
    if i > len(v.items):
        raise PanicPath("insertion index (is %d) should be <= len (is %d)" % (i, len(v.items)), "bounds")
    v.items.insert(i, a[2])
    return unit()


@model("std::vec::Vec::remove")
def m_vec_remove(ctx, cty, a):
    v = deref1(a[0])
    i = ctx.concretize(a[1], "Vec::remove index")
    if i >= len(v.items):
        raise PanicPath("removal index (is %d) should be < len (is %d)" % (i, len(v.items)), "bounds")
    return v.items.pop(i)


@model("std::vec::Vec::clear", "std::collections::VecDeque::clear")
def m_vec_clear(ctx, cty, a):
    v = deref1(a[0])
    if isinstance(v, StringObj):
        v.s = SStr()
    else:
        for x in v.items:
            ctx.drop_value(x)
        del v.items[:]
    return unit()


@model("std::vec::Vec::truncate")
def m_vec_truncate(ctx, cty, a):
    v = deref1(a[0])
    n = ctx.concretize(a[1], "truncate")
    if isinstance(v, StringObj):
        if n < v.s.known_len():
            v.s = v.s.slice(0, n)
    else:
        del v.items[n:]
    return unit()


@model("std::vec::Vec::reserve", "std::vec::Vec::shrink_to_fit", "std::vec::Vec::reserve_exact")
def m_vec_reserve(ctx, cty, a):
    return unit()


@model("std::vec::Vec::as_slice", "std::vec::Vec::as_mut_slice")
def m_vec_as_slice(ctx, cty, a):
    v = deref1(a[0])
    if isinstance(v, StringObj):
        return v.s
    return SliceRef(v.items)


@model("std::vec::Vec::extend_from_slice")
def m_vec_extend_from_slice(ctx, cty, a):
    v = deref1(a[0])
    if isinstance(v, StringObj):
        v.s = v.s.concat(as_sstr(a[1]))
    else:
        v.items.extend(clone_value(ctx, x) for x in seq_items(a[1]))
    return unit()


@model("std::vec::Vec::append")
def m_vec_append(ctx, cty, a):
    v = deref1(a[0])
    o = deref1(a[1])
    v.items.extend(o.items)
    del o.items[:]
    return unit()


@model("std::vec::Vec::drain")
def m_vec_drain(ctx, cty, a):
    v = deref1(a[0])
    lo, hi = range_bounds(ctx, a[1], len(v.items))
    if lo > hi:
        raise PanicPath("slice index starts at %d but ends at %d" % (lo, hi), "bounds")
    if hi > len(v.items):
        raise PanicPath("range end index %d out of range for slice of length %d" % (hi, len(v.items)), "bounds")
    removed = v.items[lo:hi]
    del v.items[lo:hi]
    return seq_iter(removed, "drain")


@model("std::vec::Vec::splice")
def m_vec_splice(ctx, cty, a):
    v = deref1(a[0])
    lo, hi = range_bounds(ctx, a[1], len(v.items))
    if lo > hi:
        raise PanicPath("slice index starts at %d but ends at %d" % (lo, hi), "bounds")
    if hi > len(v.items):
        raise PanicPath("range end index %d out of range for slice of length %d" % (hi, len(v.items)), "bounds")
    new = iter_drain(ctx, to_iter(ctx, a[2]))
    removed = v.items[lo:hi]
    v.items[lo:hi] = new
    return seq_iter(removed, "splice")


def range_bounds(ctx, r, n):
    """Range / RangeFrom / RangeTo / RangeFull / RangeInclusive aggregate -> (lo, hi) concrete"""
    r = deref(r)
    ty = r.ty.split("::")[-1]
    f = [ctx.concretize(x, "range bound") if not isinstance(x, bool) else x for x in r.fields]
    if ty == "Range":
        return f[0], f[1]
    if ty == "RangeFrom":
        return f[0], n
    if ty == "RangeTo":
        return 0, f[0]
    if ty == "RangeFull":
        return 0, n
    if ty == "RangeInclusive":
        return f[0], f[1] + 1
    if ty == "RangeToInclusive":
        return 0, f[0] + 1
    raise Inconclusive("range type %s" % r.ty)


@model("std::vec::Vec::contains", "core::slice::<impl [_]>::contains", "std::collections::VecDeque::contains")
def m_slice_contains(ctx, cty, a):
    x = a[1]
    for it in seq_items(a[0]):
        if ctx.decide(struct_eq(ctx, it, x)):
            return True
    return False


@model("std::vec::Vec::retain")
def m_vec_retain(ctx, cty, a):
    v = deref1(a[0])
    keep = []
    items = list(v.items)
    for i in range(len(items)):
        cell = [items[i]]
        if ctx.decide(ctx.call_closure(a[1], [Ref(cell, 0)])):
            keep.append(cell[0])
        else:
            ctx.drop_value(cell[0])
    v.items[:] = keep
    return unit()


@model("std::vec::Vec::dedup")
def m_vec_dedup(ctx, cty, a):
    v = deref1(a[0])
    out = []
    for x in v.items:
        if out and ctx.decide(struct_eq(ctx, out[-1], x)):
            continue
        out.append(x)
    v.items[:] = out
    return unit()


@model("std::vec::Vec::first", "core::slice::<impl [_]>::first")
def m_slice_first(ctx, cty, a):
    lst, s, e = as_list(a[0])
    return opt_some(Ref(lst, s)) if e > s else opt_none()


@model("std::vec::Vec::last", "core::slice::<impl [_]>::last")
def m_slice_last(ctx, cty, a):
    lst, s, e = as_list(a[0])
    return opt_some(Ref(lst, e - 1)) if e > s else opt_none()


@model("core::slice::<impl [_]>::get", "std::vec::Vec::get")
def m_slice_get(ctx, cty, a):
    lst, s, e = as_list(a[0])
    i = ctx.concretize(a[1], "slice::get")
    if isinstance(i, int):
        return opt_some(Ref(lst, s + i)) if 0 <= i < e - s else opt_none()
    raise Inconclusive("slice::get with range")


@model("core::slice::<impl [_]>::iter", "core::slice::<impl [_]>::iter_mut", "std::vec::Vec::iter", "std::collections::VecDeque::iter")
def m_slice_iter(ctx, cty, a):
    v = deref(a[0])
    if isinstance(v, (SStr, StringObj)):
        return to_iter(ctx, as_sstr(v))
    lst, s, e = as_list(v)
    return seq_iter([Ref(lst, i, True) for i in range(s, e)], "slice")


@model("core::slice::<impl [_]>::to_vec", "std::slice::<impl [_]>::to_vec")
def m_slice_to_vec(ctx, cty, a):
    v = deref(a[0])
    if isinstance(v, (SStr, StringObj)):
        return StringObj(as_sstr(v))
    return VecObj([clone_value(ctx, x) for x in seq_items(v)])


@model("std::vec::from_elem")
def m_from_elem(ctx, cty, a):
    n = ctx.concretize(a[1], "from_elem")
    t = None
    try:
        t = generic_arg(cty, 0)
    except Exception:
        pass
    if is_u8(t) and (type(a[0]) is int or is_sym(a[0])):
        return StringObj(SStr.of_chars([a[0]] * n))
    return VecObj([clone_value(ctx, a[0]) for _ in range(n)])


@model("core::slice::<impl [_]>::reverse")
def m_slice_reverse(ctx, cty, a):
    lst, s, e = as_list(a[0])
    lst[s:e] = lst[s:e][::-1]
    return unit()


@model("core::slice::<impl [_]>::swap")
def m_slice_swap(ctx, cty, a):
    lst, s, e = as_list(a[0])
    i, j = ctx.concretize(a[1]), ctx.concretize(a[2])
    lst[s + i], lst[s + j] = lst[s + j], lst[s + i]
    return unit()


@model("std::slice::<impl [_]>::join", "std::slice::<impl [_]>::concat")
def m_slice_join(ctx, cty, a):
    items = seq_items(a[0])
    sep = as_sstr(a[1]) if len(a) > 1 else SStr()
    out = SStr()
    for i, it in enumerate(items):
        if i:
            out = out.concat(sep)
        out = out.concat(as_sstr(it))
    return StringObj(out)


@model("std::slice::<impl [_]>::sort", "core::slice::<impl [_]>::sort_unstable")
def m_slice_sort(ctx, cty, a):
    lst, s, e = as_list(a[0])
    items = lst[s:e]
    out = []
    for x in items:  # insertion sort with solver-decided comparisons (stable)
        pos = len(out)
        for j in range(len(out) - 1, -1, -1):
            if key_cmp(ctx, x, out[j]) < 0:
                pos = j
            else:
                break
        out.insert(pos, x)
    lst[s:e] = out
    return unit()


@model("<_ as std::ops::Index>::index", "<_ as std::ops::IndexMut>::index_mut")
def m_index(ctx, cty, a):
    v = deref(a[0])
    idx = a[1]
    if type(v) is Agg and v.ty == "serde_json::Value":
        from .models_json import json_index
        return json_index(ctx, a[0], v, idx)
    if isinstance(v, (SStr, StringObj)):
        s = as_sstr(v)
        n = s.known_len()
        if type(idx) is Agg:
            if n is None:
                raise Inconclusive("slicing unknown-length string")
            lo, hi = range_bounds(ctx, idx, n)
            if lo > hi or hi > n:
                raise PanicPath("byte index out of range (%d..%d of %d)" % (lo, hi, n), "bounds")
            return s.slice(lo, hi)
        i = ctx.concretize(idx, "byte index")
        if not (0 <= i < len(s)):
            raise PanicPath("index out of bounds: the len is %d but the index is %d" % (len(s), i), "bounds")
        if isinstance(v, StringObj):
            return Ref(ByteCells(v), i, True)
        return new_ref(s.byte_at(i))
    if isinstance(v, MapObj):
        i = map_find(ctx, v, idx)
        if i is None:
            raise PanicPath("key not found in map index", "bounds")
        return Ref(v.entries[i], 1)
    lst, s, e = as_list(v)
    if type(idx) is Agg:
        lo, hi = range_bounds(ctx, idx, e - s)
        if lo > hi:
            raise PanicPath("slice index starts at %d but ends at %d" % (lo, hi), "bounds")
        if hi > e - s:
            raise PanicPath("range end index %d out of range for slice of length %d" % (hi, e - s), "bounds")
        return SliceRef(lst, s + lo, s + hi)
    i = ctx.concretize(idx, "index")
    if not (0 <= i < e - s):
        raise PanicPath("index out of bounds: the len is %d but the index is %d" % (e - s, i), "bounds")
    return Ref(lst, s + i, True)


# ------------------------------------------------------------------ VecDeque
@model("std::collections::VecDeque::new")
def m_vd_new(ctx, cty, a):
    return VecObj()


@model("std::collections::VecDeque::push_back")
def m_vd_push_back(ctx, cty, a):
    deref1(a[0]).items.append(a[1])
    return unit()


@model("std::collections::VecDeque::push_front")
def m_vd_push_front(ctx, cty, a):
    deref1(a[0]).items.insert(0, a[1])
    return unit()


@model("std::collections::VecDeque::pop_front")
def m_vd_pop_front(ctx, cty, a):
    v = deref1(a[0])
    return opt_some(v.items.pop(0)) if v.items else opt_none()


@model("std::collections::VecDeque::pop_back")
def m_vd_pop_back(ctx, cty, a):
    v = deref1(a[0])
    return opt_some(v.items.pop()) if v.items else opt_none()


@model("std::collections::VecDeque::front", "std::collections::VecDeque::front_mut")
def m_vd_front(ctx, cty, a):
    v = deref1(a[0])
    return opt_some(Ref(v.items, 0, True)) if v.items else opt_none()


@model("std::collections::VecDeque::back", "std::collections::VecDeque::back_mut")
def m_vd_back(ctx, cty, a):
    v = deref1(a[0])
    return opt_some(Ref(v.items, len(v.items) - 1, True)) if v.items else opt_none()


@model("std::collections::VecDeque::with_capacity")
def m_vd_with_cap(ctx, cty, a):
    return VecObj()


# ------------------------------------------------------------------ iterators
IT = "<_ as std::iter::Iterator>::"


@model("<_ as std::iter::IntoIterator>::into_iter")
def m_into_iter(ctx, cty, a):
    return to_iter(ctx, a[0])


@model(IT + "next")
def m_next(ctx, cty, a):
    v = iter_next(ctx, a[0])
    return opt_none() if v is STOP else opt_some(v)


@model("<_ as std::iter::DoubleEndedIterator>::next_back")
def m_next_back(ctx, cty, a):
    it = deref(a[0])
    st = it.meta
    if st is None or "items" not in st:
        raise Inconclusive("next_back on adaptor")
    if st["lo"] >= st["hi"]:
        return opt_none()
    st["hi"] -= 1
    return opt_some(st["items"][st["hi"]])


@model(IT + "rev")
def m_rev(ctx, cty, a):
    it = a[0]
    st = it.meta
    if st is None or "items" not in st:
        items = iter_drain(ctx, it)
    else:
        items = st["items"][st["lo"]:st["hi"]]
    return seq_iter(items[::-1], "rev")


def adaptor(nxt, kind, src):
    return IterObj(nxt, kind, {"src": src})


@model(IT + "map")
def m_it_map(ctx, cty, a):
    src, f = a[0], a[1]
    holder = new_ref(f, True)

    def nxt():
        v = iter_next(ctx, src)
        if v is STOP:
            return STOP
        return ctx.call_closure(holder, [v])
    return adaptor(nxt, "map", src)


@model(IT + "filter")
def m_it_filter(ctx, cty, a):
    src, f = a[0], a[1]
    holder = new_ref(f, True)

    def nxt():
        while True:
            v = iter_next(ctx, src)
            if v is STOP:
                return STOP
            if ctx.decide(ctx.call_closure(holder, [new_ref(v)])):
                return v
    return adaptor(nxt, "filter", src)


@model(IT + "filter_map")
def m_it_filter_map(ctx, cty, a):
    src, f = a[0], a[1]
    holder = new_ref(f, True)

    def nxt():
        while True:
            v = iter_next(ctx, src)
            if v is STOP:
                return STOP
            r = ctx.call_closure(holder, [v])
            if r.variant == 1:
                return r.fields[0]
    return adaptor(nxt, "filter_map", src)


@model(IT + "flat_map")
def m_it_flat_map(ctx, cty, a):
    src, f = a[0], a[1]
    holder = new_ref(f, True)
    cur = [None]

    def nxt():
        while True:
            if cur[0] is not None:
                v = iter_next(ctx, cur[0])
                if v is not STOP:
                    return v
                cur[0] = None
            v = iter_next(ctx, src)
            if v is STOP:
                return STOP
            cur[0] = to_iter(ctx, ctx.call_closure(holder, [v]))
    return adaptor(nxt, "flat_map", src)


@model(IT + "flatten")
def m_it_flatten(ctx, cty, a):
    src = a[0]
    cur = [None]

    def nxt():
        while True:
            if cur[0] is not None:
                v = iter_next(ctx, cur[0])
                if v is not STOP:
                    return v
                cur[0] = None
            v = iter_next(ctx, src)
            if v is STOP:
                return STOP
            cur[0] = to_iter(ctx, v)
    return adaptor(nxt, "flatten", src)


@model(IT + "enumerate")
def m_it_enumerate(ctx, cty, a):
    src = a[0]
    n = [0]

    def nxt():
        v = iter_next(ctx, src)
        if v is STOP:
            return STOP
        i = n[0]
        n[0] += 1
        return tup(i, v)
    return adaptor(nxt, "enumerate", src)


@model(IT + "zip")
def m_it_zip(ctx, cty, a):
    s1 = a[0]
    s2 = to_iter(ctx, a[1])

    def nxt():
        x = iter_next(ctx, s1)
        if x is STOP:
            return STOP
        y = iter_next(ctx, s2)
        if y is STOP:
            return STOP
        return tup(x, y)
    return adaptor(nxt, "zip", s1)


@model(IT + "chain")
def m_it_chain(ctx, cty, a):
    s1 = a[0]
    s2 = to_iter(ctx, a[1])
    st = [0]

    def nxt():
        if st[0] == 0:
            x = iter_next(ctx, s1)
            if x is not STOP:
                return x
            st[0] = 1
        return iter_next(ctx, s2)
    return adaptor(nxt, "chain", s1)


@model(IT + "cloned", IT + "copied")
def m_it_cloned(ctx, cty, a):
    src = a[0]

    def nxt():
        v = iter_next(ctx, src)
        if v is STOP:
            return STOP
        return clone_value(ctx, deref1(v))
    return adaptor(nxt, "cloned", src)


@model(IT + "skip")
def m_it_skip(ctx, cty, a):
    src = a[0]
    n = ctx.concretize(a[1], "skip")
    for _ in range(n):
        if iter_next(ctx, src) is STOP:
            break
    return src


@model(IT + "take")
def m_it_take(ctx, cty, a):
    src = a[0]
    n = [ctx.concretize(a[1], "take")]

    def nxt():
        if n[0] <= 0:
            return STOP
        n[0] -= 1
        return iter_next(ctx, src)
    return adaptor(nxt, "take", src)


@model(IT + "take_while")
def m_it_take_while(ctx, cty, a):
    src, f = a[0], new_ref(a[1], True)
    done = [False]

    def nxt():
        if done[0]:
            return STOP
        v = iter_next(ctx, src)
        if v is STOP:
            return STOP
        if ctx.decide(ctx.call_closure(f, [new_ref(v)])):
            return v
        done[0] = True
        return STOP
    return adaptor(nxt, "take_while", src)


@model(IT + "peekable", IT + "fuse", IT + "by_ref")
def m_it_same(ctx, cty, a):
    return a[0]


@model(IT + "for_each")
def m_it_for_each(ctx, cty, a):
    src, f = a[0], new_ref(a[1], True)
    while True:
        v = iter_next(ctx, src)
        if v is STOP:
            break
        ctx.call_closure(f, [v])
    return unit()


@model(IT + "position")
def m_it_position(ctx, cty, a):
    src, f = a[0], new_ref(a[1], True)
    i = 0
    while True:
        v = iter_next(ctx, src)
        if v is STOP:
            return opt_none()
        if ctx.decide(ctx.call_closure(f, [v])):
            return opt_some(i)
        i += 1


@model(IT + "find")
def m_it_find(ctx, cty, a):
    src, f = a[0], new_ref(a[1], True)
    while True:
        v = iter_next(ctx, src)
        if v is STOP:
            return opt_none()
        if ctx.decide(ctx.call_closure(f, [new_ref(v)])):
            return opt_some(v)


@model(IT + "find_map")
def m_it_find_map(ctx, cty, a):
    src, f = a[0], new_ref(a[1], True)
    while True:
        v = iter_next(ctx, src)
        if v is STOP:
            return opt_none()
        r = ctx.call_closure(f, [v])
        if r.variant == 1:
            return r


@model(IT + "any")
def m_it_any(ctx, cty, a):
    src, f = a[0], new_ref(a[1], True)
    while True:
        v = iter_next(ctx, src)
        if v is STOP:
            return False
        if ctx.decide(ctx.call_closure(f, [v])):
            return True


@model(IT + "all")
def m_it_all(ctx, cty, a):
    src, f = a[0], new_ref(a[1], True)
    while True:
        v = iter_next(ctx, src)
        if v is STOP:
            return True
        if not ctx.decide(ctx.call_closure(f, [v])):
            return False


@model(IT + "count")
def m_it_count(ctx, cty, a):
    return len(iter_drain(ctx, a[0]))


@model(IT + "last")
def m_it_last(ctx, cty, a):
    xs = iter_drain(ctx, a[0])
    return opt_some(xs[-1]) if xs else opt_none()


@model(IT + "nth")
def m_it_nth(ctx, cty, a):
    n = ctx.concretize(a[1], "nth")
    v = STOP
    for _ in range(n + 1):
        v = iter_next(ctx, a[0])
        if v is STOP:
            return opt_none()
    return opt_some(v)


@model(IT + "max", IT + "min")
def m_it_max(ctx, cty, a):
    xs = iter_drain(ctx, a[0])
    if not xs:
        return opt_none()
    want_max = cty.c[0][0] == "max"
    best = xs[0]
    for x in xs[1:]:
        c = key_cmp(ctx, x, best)
        if (want_max and c >= 0) or (not want_max and c < 0):
            best = x
    return opt_some(best)


@model(IT + "max_by_key", IT + "min_by_key")
def m_it_max_by_key(ctx, cty, a):
    xs = iter_drain(ctx, a[0])
    f = new_ref(a[1], True)
    if not xs:
        return opt_none()
    want_max = cty.c[0][0] == "max_by_key"
    best = xs[0]
    bk = ctx.call_closure(f, [new_ref(best)])
    for x in xs[1:]:
        k = ctx.call_closure(f, [new_ref(x)])
        c = key_cmp(ctx, k, bk)
        if (want_max and c >= 0) or (not want_max and c < 0):
            best, bk = x, k
    return opt_some(best)


@model(IT + "sum")
def m_it_sum(ctx, cty, a):
    t = 0
    for x in iter_drain(ctx, a[0]):
        t = t + deref(x)
    return t


@model(IT + "fold")
def m_it_fold(ctx, cty, a):
    acc = a[1]
    f = new_ref(a[2], True)
    for x in iter_drain(ctx, a[0]):
        acc = ctx.call_closure(f, [acc, x])
    return acc


@model(IT + "collect")
def m_it_collect(ctx, cty, a):
    from .models_coll import collect_into
    target = generic_arg(cty, 0)
    return collect_into(ctx, target, a[0])


@model("<_ as std::iter::FromIterator>::from_iter")
def m_from_iter(ctx, cty, a):
    from .models_coll import collect_into
    return collect_into(ctx, cty.a, to_iter(ctx, a[0]))


@model("<_ as std::iter::Extend>::extend")
def m_extend(ctx, cty, a):
    tgt = deref1(a[0])
    items = iter_drain(ctx, to_iter(ctx, a[1]))
    if isinstance(tgt, VecObj):
        tgt.items.extend(items)
    elif isinstance(tgt, MapObj):
        for it in items:
            if tgt.is_set:
                map_insert(ctx, tgt, it, unit())
            else:
                map_insert(ctx, tgt, it.fields[0], it.fields[1])
    elif isinstance(tgt, StringObj):
        for it in items:
            tgt.s = tgt.s.concat(as_sstr(it) if not isinstance(it, int) and not is_sym(it) else byte_str(it))
    else:
        raise Inconclusive("extend on %r" % (tgt,))
    return unit()


@model(IT + "size_hint")
def m_size_hint(ctx, cty, a):
    return tup(0, opt_none())


@model("<_ as std::iter::ExactSizeIterator>::len")
def m_it_len(ctx, cty, a):
    it = deref(a[0])
    st = it.meta
    if st and "items" in st:
        return st["hi"] - st["lo"]
    raise Inconclusive("len of adaptor")


# ------------------------------------------------------------------ additions (closures, misc)
@model("<_ as std::ops::Fn>::call", "<_ as std::ops::FnMut>::call_mut", "<_ as std::ops::FnOnce>::call_once")
def m_fn_call(ctx, cty, a):
    args = a[1].fields if type(a[1]) is Agg else []
    f = a[0]
    if deref(f) is None and cty.kind == "qpath":
        # zero-sized (non-capturing) closure: its local is never assigned in MIR
        t = cty.a.strip_refs()
        if t.kind == "closure":
            f = Agg("{closure@%s}" % t.a, None, [])
    return ctx.call_closure(f, list(args))


@model("std::vec::Vec::resize")
def m_vec_resize(ctx, cty, a):
    v = deref1(a[0])
    n = ctx.concretize(a[1], "resize")
    if isinstance(v, StringObj):
        raise Inconclusive("Vec<u8>::resize")
    if n < len(v.items):
        del v.items[n:]
    else:
        v.items.extend(clone_value(ctx, a[2]) for _ in range(n - len(v.items)))
    return unit()


@model("std::vec::Vec::split_off")
def m_vec_split_off(ctx, cty, a):
    v = deref1(a[0])
    n = ctx.concretize(a[1], "split_off")
    if n > len(v.items):
        raise PanicPath("split_off: `at` out of bounds", "bounds")
    tail = v.items[n:]
    del v.items[n:]
    return VecObj(tail)


@model("core::slice::<impl [_]>::last_mut", "core::slice::<impl [_]>::first_mut")
def m_slice_last_mut(ctx, cty, a):
    lst, s, e = as_list(a[0])
    if e <= s:
        return opt_none()
    return opt_some(Ref(lst, e - 1 if cty.a[-1][0] == "last_mut" else s, True))


@model("std::option::Option::get_or_insert_with")
def m_opt_get_or_insert_with(ctx, cty, a):
    r = a[0]
    o = r.get()
    if o.variant == 0:
        o = opt_some(ctx.call_closure(a[1], []))
        r.set(o)
    return Ref(o.fields, 0, True)


@model("std::option::Option::insert")
def m_opt_insert(ctx, cty, a):
    o = opt_some(a[1])
    a[0].set(o)
    return Ref(o.fields, 0, True)


@model("<_ as std::iter::Iterator>::step_by")
def m_it_step_by(ctx, cty, a):
    src = a[0]
    step = ctx.concretize(a[1], "step_by")
    if step == 0:
        raise PanicPath("step_by(0)", "assert")
    first = [True]

    def nxt():
        if first[0]:
            first[0] = False
            return iter_next(ctx, src)
        v = STOP
        for _ in range(step):
            v = iter_next(ctx, src)
            if v is STOP:
                return STOP
        return v
    return adaptor(nxt, "step_by", src)


def _arith(op):
    def f(ctx, cty, a):
        x, y = deref(a[0]), deref(a[1])
        t = cty.a.strip_refs().head() if cty.kind == "qpath" else None
        if t in INT_BITS:
            r = ctx.checked_binop(op, x, y, t)
            if ctx.decide(r.fields[1]):
                raise PanicPath("attempt to %s with overflow" % op, "overflow")
            return r.fields[0]
        raise Inconclusive("arith on %r" % (t,))
    return f


REG.exact["<_ as std::ops::Add>::add"] = _arith("AddWithOverflow")
REG.exact["<_ as std::ops::Sub>::sub"] = _arith("SubWithOverflow")
REG.exact["<_ as std::ops::Mul>::mul"] = _arith("MulWithOverflow")


@model(OPT + "map_or")
def m_opt_map_or(ctx, cty, a):
    o = a[0]
    if o.variant == 1:
        return ctx.call_closure(a[2], [o.fields[0]])
    return a[1]


@model(OPT + "map_or_else")
def m_opt_map_or_else(ctx, cty, a):
    o = a[0]
    if o.variant == 1:
        return ctx.call_closure(a[2], [o.fields[0]])
    return ctx.call_closure(a[1], [])


@model(RES + "map_or")
def m_res_map_or(ctx, cty, a):
    r = a[0]
    if r.variant == 0:
        return ctx.call_closure(a[2], [r.fields[0]])
    return a[1]


def default_for(ctx, t):
    h = t.head() if t is not None else "?"
    if h == "std::vec::Vec":
        g = t.generics()
        if g and g[0].kind == "path" and g[0].head() == "u8":
            return StringObj(SStr())
        return VecObj()
    if h == "std::string::String":
        return StringObj(SStr())
    if h in ("std::collections::HashMap", "std::collections::BTreeMap", "std::collections::HashSet", "std::collections::BTreeSet", "serde_json::Map"):
        from .models_coll import new_map_for
        return new_map_for(t)
    if h in INT_BITS:
        return 0
    if h == "bool":
        return False
    if h == "std::option::Option":
        return opt_none()
    raise Inconclusive("Default for %s" % h)


@model(RES + "unwrap_or_default")
def m_res_unwrap_or_default(ctx, cty, a):
    r = a[0]
    if r.variant == 0:
        return r.fields[0]
    ctx.drop_value(r.fields[0])
    return default_for(ctx, generic_arg(cty, 0, -2))


@model("core::slice::<impl [_]>::split_at")
def m_slice_split_at(ctx, cty, a):
    lst, s, e = as_list(a[0])
    n = ctx.concretize(a[1], "split_at")
    if n > e - s:
        raise PanicPath("mid > len in split_at", "bounds")
    return tup(SliceRef(lst, s, s + n), SliceRef(lst, s + n, e))


@model("core::slice::<impl [_]>::split_first")
def m_slice_split_first(ctx, cty, a):
    lst, s, e = as_list(a[0])
    if e <= s:
        return opt_none()
    return opt_some(tup(Ref(lst, s), SliceRef(lst, s + 1, e)))


@model("std::ops::RangeInclusive::new")
def m_range_inclusive_new(ctx, cty, a):
    return Agg("std::ops::RangeInclusive", None, [a[0], a[1], False])


@model("std::ops::RangeInclusive::start", "std::ops::RangeInclusive::end")
def m_range_inclusive_bound(ctx, cty, a):
    r = deref(a[0])
    return Ref(r.fields, 0 if cty.a[-1][0] == "start" else 1)


# ------------------------------------------------------------------ more Vec / Option / iterator operations
@model("std::vec::Vec::swap_remove")
def m_vec_swap_remove(ctx, cty, a):
    v = deref1(a[0])
    i = ctx.concretize(a[1], "swap_remove")
    if i >= len(v.items):
        raise PanicPath("swap_remove index out of bounds", "bounds")
    x = v.items[i]
    last = v.items.pop()
    if i < len(v.items):
        v.items[i] = last
    return x


@model("std::vec::Vec::extend", "std::vec::Vec::extend_from_within")
def m_vec_extend(ctx, cty, a):
    return m_extend(ctx, cty, a)


@model("std::vec::Vec::sort_by", "core::slice::<impl [_]>::sort_by", "core::slice::<impl [_]>::sort_unstable_by")
def m_sort_by(ctx, cty, a):
    lst, s, e = as_list(a[0])
    f = new_ref(a[1], True)
    out = []
    for x in lst[s:e]:
        pos = len(out)
        for j in range(len(out) - 1, -1, -1):
            if ctx.call_closure(f, [new_ref(x), new_ref(out[j])]).variant == 0:
                pos = j
            else:
                break
        out.insert(pos, x)
    lst[s:e] = out
    return unit()


@model("std::vec::Vec::sort_by_key", "core::slice::<impl [_]>::sort_by_key", "core::slice::<impl [_]>::sort_unstable_by_key")
def m_sort_by_key(ctx, cty, a):
    lst, s, e = as_list(a[0])
    f = new_ref(a[1], True)
    keyed = [(ctx.call_closure(f, [new_ref(x)]), x) for x in lst[s:e]]
    out = []
    for k, x in keyed:
        pos = len(out)
        for j in range(len(out) - 1, -1, -1):
            if key_cmp(ctx, k, out[j][0]) < 0:
                pos = j
            else:
                break
        out.insert(pos, (k, x))
    lst[s:e] = [x for _, x in out]
    return unit()


@model("std::vec::Vec::sort", "std::vec::Vec::sort_unstable")
def m_vec_sort(ctx, cty, a):
    return m_slice_sort(ctx, cty, a)


@model("core::slice::<impl [_]>::binary_search", "std::vec::Vec::binary_search")
def m_binary_search(ctx, cty, a):
    items = seq_items(a[0])
    for i, x in enumerate(items):
        c = key_cmp(ctx, x, a[1])
        if c == 0:
            return res_ok(i)
        if c > 0:
            return res_err(i)
    return res_err(len(items))


@model("core::slice::<impl [_]>::starts_with", "core::slice::<impl [_]>::ends_with")
def m_slice_starts_with(ctx, cty, a):
    v = deref(a[0])
    if isinstance(v, (SStr, StringObj)):
        s, p = as_sstr(v), as_sstr(a[1])
        return s.startswith(p) if cty.a[-1][0] == "starts_with" else s.endswith(p)
    xs, ys = seq_items(a[0]), seq_items(a[1])
    if len(ys) > len(xs):
        return False
    part = xs[:len(ys)] if cty.a[-1][0] == "starts_with" else xs[len(xs) - len(ys):]
    return b_and(*[struct_eq(ctx, x, y) for x, y in zip(part, ys)])


@model("core::slice::<impl [_]>::concat")
def m_slice_concat(ctx, cty, a):
    out = []
    for it in seq_items(a[0]):
        out.extend(clone_value(ctx, x) for x in seq_items(it))
    return VecObj(out)


@model("core::slice::<impl [_]>::windows", "core::slice::<impl [_]>::chunks")
def m_slice_windows(ctx, cty, a):
    lst, s, e = as_list(a[0])
    n = ctx.concretize(a[1], "window size")
    if cty.a[-1][0] == "windows":
        return seq_iter([SliceRef(lst, i, i + n) for i in range(s, e - n + 1)], "windows")
    return seq_iter([SliceRef(lst, i, min(i + n, e)) for i in range(s, e, n)], "chunks")


@model(OPT + "replace")
def m_opt_replace(ctx, cty, a):
    r = a[0]
    old = r.get()
    r.set(opt_some(a[1]))
    return old


@model(OPT + "zip")
def m_opt_zip(ctx, cty, a):
    if a[0].variant == 1 and a[1].variant == 1:
        return opt_some(tup(a[0].fields[0], a[1].fields[0]))
    return opt_none()


@model(OPT + "or")
def m_opt_or(ctx, cty, a):
    return a[0] if a[0].variant == 1 else a[1]


@model(OPT + "or_else")
def m_opt_or_else(ctx, cty, a):
    return a[0] if a[0].variant == 1 else ctx.call_closure(a[1], [])


@model(OPT + "and")
def m_opt_and(ctx, cty, a):
    return a[1] if a[0].variant == 1 else opt_none()


@model(OPT + "xor")
def m_opt_xor(ctx, cty, a):
    if a[0].variant == 1 and a[1].variant == 0:
        return a[0]
    if a[0].variant == 0 and a[1].variant == 1:
        return a[1]
    return opt_none()


@model(OPT + "get_or_insert")
def m_opt_get_or_insert(ctx, cty, a):
    r = a[0]
    o = r.get()
    if o.variant == 0:
        o = opt_some(a[1])
        r.set(o)
    return Ref(o.fields, 0, True)


@model(OPT + "inspect", RES + "inspect")
def m_inspect(ctx, cty, a):
    o = a[0]
    if o.variant == (1 if o.ty.endswith("Option") else 0):
        ctx.call_closure(a[1], [Ref(o.fields, 0)])
    return o


@model(RES + "or_else")
def m_res_or_else(ctx, cty, a):
    r = a[0]
    return r if r.variant == 0 else ctx.call_closure(a[1], [r.fields[0]])


@model(RES + "unwrap_or_else")
def m_res_unwrap_or_else2(ctx, cty, a):
    r = a[0]
    return r.fields[0] if r.variant == 0 else ctx.call_closure(a[1], [r.fields[0]])


@model(RES + "is_ok_and")
def m_res_is_ok_and(ctx, cty, a):
    r = a[0]
    return ctx.call_closure(a[1], [r.fields[0]]) if r.variant == 0 else False


@model(RES + "is_err_and")
def m_res_is_err_and(ctx, cty, a):
    r = a[0]
    return ctx.call_closure(a[1], [r.fields[0]]) if r.variant == 1 else False


@model(IT + "skip_while")
def m_it_skip_while(ctx, cty, a):
    src, f = a[0], new_ref(a[1], True)
    started = [False]

    def nxt():
        while True:
            v = iter_next(ctx, src)
            if v is STOP:
                return STOP
            if started[0] or not ctx.decide(ctx.call_closure(f, [new_ref(v)])):
                started[0] = True
                return v
    return adaptor(nxt, "skip_while", src)


@model(IT + "map_while")
def m_it_map_while(ctx, cty, a):
    src, f = a[0], new_ref(a[1], True)
    done = [False]

    def nxt():
        if done[0]:
            return STOP
        v = iter_next(ctx, src)
        if v is STOP:
            return STOP
        r = ctx.call_closure(f, [v])
        if r.variant == 1:
            return r.fields[0]
        done[0] = True
        return STOP
    return adaptor(nxt, "map_while", src)


@model(IT + "inspect")
def m_it_inspect(ctx, cty, a):
    src, f = a[0], new_ref(a[1], True)

    def nxt():
        v = iter_next(ctx, src)
        if v is not STOP:
            ctx.call_closure(f, [new_ref(v)])
        return v
    return adaptor(nxt, "inspect", src)


@model(IT + "max_by", IT + "min_by")
def m_it_max_by(ctx, cty, a):
    xs = iter_drain(ctx, a[0])
    f = new_ref(a[1], True)
    if not xs:
        return opt_none()
    want_max = cty.c[0][0] == "max_by"
    best = xs[0]
    for x in xs[1:]:
        c = ctx.call_closure(f, [new_ref(x), new_ref(best)]).variant - 1
        if (want_max and c >= 0) or (not want_max and c < 0):
            best = x
    return opt_some(best)


@model(IT + "partition")
def m_it_partition(ctx, cty, a):
    from .models_coll import collect_into
    xs = iter_drain(ctx, a[0])
    f = new_ref(a[1], True)
    yes, no = [], []
    for x in xs:
        (yes if ctx.decide(ctx.call_closure(f, [new_ref(x)])) else no).append(x)
    t = generic_arg(cty, 0)
    return tup(collect_into(ctx, t, seq_iter(yes)), collect_into(ctx, t, seq_iter(no)))


@model(IT + "unzip")
def m_it_unzip(ctx, cty, a):
    xs = iter_drain(ctx, a[0])
    return tup(VecObj([x.fields[0] for x in xs]), VecObj([x.fields[1] for x in xs]))


@model(IT + "try_for_each")
def m_it_try_for_each(ctx, cty, a):
    src, f = a[0], new_ref(a[1], True)
    while True:
        v = iter_next(ctx, src)
        if v is STOP:
            return res_ok(unit())
        r = ctx.call_closure(f, [v])
        if type(r) is Agg and r.variant == 1:
            return r


@model(IT + "eq")
def m_it_eq(ctx, cty, a):
    xs = iter_drain(ctx, a[0])
    ys = iter_drain(ctx, to_iter(ctx, a[1]))
    if len(xs) != len(ys):
        return False
    return b_and(*[struct_eq(ctx, x, y) for x, y in zip(xs, ys)])


@model(IT + "cmp")
def m_it_cmp(ctx, cty, a):
    xs = iter_drain(ctx, a[0])
    ys = iter_drain(ctx, to_iter(ctx, a[1]))
    for x, y in zip(xs, ys):
        c = key_cmp(ctx, x, y)
        if c != 0:
            return ordering(c)
    return ordering(-1 if len(xs) < len(ys) else (0 if len(xs) == len(ys) else 1))


@model(IT + "product")
def m_it_product(ctx, cty, a):
    t = 1
    for x in iter_drain(ctx, a[0]):
        t = t * deref(x)
    return t


@model(IT + "cycle")
def m_it_unsupported(ctx, cty, a):
    raise Inconclusive("iterator adaptor %s" % cty.c[0][0])


@model("<_ as std::clone::Clone>::clone_from")
def m_clone_from(ctx, cty, a):
    a[0].set(clone_value(ctx, deref1(a[1])))
    return unit()


@model("<_ as std::default::Default>::default")
def m_default(ctx, cty, a):
    return default_for(ctx, cty.a)
