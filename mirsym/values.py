"""Runtime value representation of the MIR symbolic executor."""
import z3


class Unmodelled(Exception):
    """The executor met a callee / construct it has no model for: the path is inconclusive."""


class PanicPath(Exception):
    """A Rust panic (or modelled non-termination) is reached on this path."""

    def __init__(self, msg, kind="panic", where=None):
        Exception.__init__(self, msg)
        self.msg = msg
        self.kind = kind
        self.where = where


class AssumeFail(Exception):
    """sym::assume(false): the path is outside the harness' precondition."""


class Agg:
    """struct / tuple / enum variant / array / closure value (inline aggregate)."""
    __slots__ = ("ty", "variant", "fields")

    def __init__(self, ty, variant, fields):
        self.ty = ty
        self.variant = variant
        self.fields = fields

    def __repr__(self):
        return "Agg(%s#%s%r)" % (self.ty, self.variant, self.fields)


UNIT_TY = "()"


def unit():
    return Agg("()", None, [])


def tup(*xs):
    return Agg("tuple", None, list(xs))


class Ref:
    """pointer to slot `idx` of python list `lst`"""
    __slots__ = ("lst", "idx", "mut")

    def __init__(self, lst, idx, mut=False):
        self.lst = lst
        self.idx = idx
        self.mut = mut

    def get(self):
        return self.lst[self.idx]

    def set(self, v):
        self.lst[self.idx] = v

    def key(self):
        return (id(self.lst), self.idx)

    def __repr__(self):
        return "Ref(%x,%s)" % (id(self.lst) & 0xFFFF, self.idx)


def new_ref(v, mut=False):
    return Ref([v], 0, mut)


class SliceRef:
    """&[T] view into a python list"""
    __slots__ = ("lst", "start", "end")

    def __init__(self, lst, start=0, end=None):
        self.lst = lst
        self.start = start
        self.end = len(lst) if end is None else end

    def __len__(self):
        return self.end - self.start

    def items(self):
        return self.lst[self.start:self.end]

    def __repr__(self):
        return "SliceRef(%r)" % (self.items(),)


class HeapObj:
    pass


class VecObj(HeapObj):
    __slots__ = ("items",)

    def __init__(self, items=None):
        self.items = items if items is not None else []

    def __repr__(self):
        return "Vec%r" % (self.items,)


class StringObj(HeapObj):
    """String and Vec<u8>"""
    __slots__ = ("fields",)

    def __init__(self, s):
        self.fields = [s]

    @property
    def s(self):
        return self.fields[0]

    @s.setter
    def s(self, v):
        self.fields[0] = v

    def __repr__(self):
        return "String(%r)" % (self.fields[0],)


class BoxObj(HeapObj):
    __slots__ = ("fields", "kind")

    def __init__(self, v, kind="Box"):
        self.fields = [v]
        self.kind = kind

    def __repr__(self):
        return "%s(%r)" % (self.kind, self.fields[0])


class LockObj(HeapObj):
    """Mutex / RwLock / RefCell"""
    __slots__ = ("fields", "kind", "writers", "readers", "uid")
    _n = 0

    def __init__(self, v, kind):
        self.fields = [v]
        self.kind = kind
        self.writers = 0
        self.readers = 0
        LockObj._n += 1
        self.uid = LockObj._n

    def __repr__(self):
        return "%s#%d(%r)" % (self.kind, self.uid, self.fields[0])


class GuardObj(HeapObj):
    __slots__ = ("lock", "write", "live")

    def __init__(self, lock, write):
        self.lock = lock
        self.write = write
        self.live = True

    def __repr__(self):
        return "Guard(%s,%s)" % (self.lock.kind, "w" if self.write else "r")


class MapObj(HeapObj):
    """HashMap / BTreeMap / serde_json::Map / HashSet / BTreeSet (sets store value unit)."""
    __slots__ = ("kind", "entries", "is_set", "key_ty")

    def __init__(self, kind, is_set=False, key_ty=None):
        self.kind = kind  # 'hash' | 'btree' | 'json'
        self.entries = []  # list of [key, value] (python lists so that slots are addressable)
        self.is_set = is_set
        self.key_ty = key_ty

    def __repr__(self):
        return "%s%s%r" % (self.kind, "set" if self.is_set else "map", self.entries)


class LruObj(HeapObj):
    __slots__ = ("cap", "entries")

    def __init__(self, cap):
        self.cap = cap
        self.entries = []  # most recent first: [key, value]


class IterObj(HeapObj):
    """iterator: `nxt` is a python callable returning a value or raising StopIteration-like None marker"""
    __slots__ = ("nxt", "kind", "rev", "meta")

    def __init__(self, nxt, kind="iter", meta=None):
        self.nxt = nxt
        self.kind = kind
        self.meta = meta


class FnItem:
    __slots__ = ("path",)

    def __init__(self, path):
        self.path = path

    def __repr__(self):
        return "FnItem(%s)" % self.path


class Opaque:
    __slots__ = ("what", "data")

    def __init__(self, what, data=None):
        self.what = what
        self.data = data

    def __repr__(self):
        return "Opaque(%s)" % (self.what,)


class ErrObj(HeapObj):
    """anyhow::Error / any error value: message kept when known"""
    __slots__ = ("msg",)

    def __init__(self, msg):
        self.msg = msg

    def __repr__(self):
        return "Err(%r)" % (self.msg,)


def is_sym(v):
    return isinstance(v, z3.ExprRef)


# ---- option / result helpers (variant indices follow the std declarations)
def opt_none():
    return Agg("std::option::Option", 0, [])


def opt_some(v):
    return Agg("std::option::Option", 1, [v])


def res_ok(v):
    return Agg("std::result::Result", 0, [v])


def res_err(e):
    return Agg("std::result::Result", 1, [e])


ORD_LESS, ORD_EQ, ORD_GT = 0, 1, 2


def ordering(i):
    """i in -1,0,1"""
    return Agg("std::cmp::Ordering", i + 1, [])


def copy_value(v):
    """semantic of MIR `copy`: duplicates inline aggregates, shares everything else"""
    if type(v) is Agg:
        return Agg(v.ty, v.variant, [copy_value(f) for f in v.fields])
    return v
