"""Models: HashMap / BTreeMap / HashSet / BTreeSet / LruCache."""
import z3
from .models import *
from .values import *
from .sstr import SStr
from .interp import Inconclusive

MAPS = {"std::collections::HashMap": ("hash", False), "std::collections::BTreeMap": ("btree", False),
        "std::collections::HashSet": ("hash", True), "std::collections::BTreeSet": ("btree", True),
        "serde_json::Map": ("json", False)}


def new_map_for(ty):
    """ty: parsed type of the collection"""
    h = ty.head()
    kind, is_set = MAPS[h]
    key_ty = None
    g = ty.generics()
    if g and g[0].kind == "ptr":
        key_ty = "ptr"
    return MapObj(kind, is_set, key_ty)


def collect_into(ctx, target, it):
    if target is None:
        raise Inconclusive("collect without target type")
    h = target.head()
    items = iter_drain(ctx, it)
    if h == "std::vec::Vec":
        g = target.generics()
        if g and g[0].kind == "path" and g[0].head() == "u8":
            s = SStr()
            from .models_core import byte_str
            for x in items:
                s = s.concat(byte_str(deref(x)))
            return StringObj(s)
        return VecObj(items)
    if h in MAPS:
        m = new_map_for(target)
        for x in items:
            if m.is_set:
                map_insert(ctx, m, x, unit())
            else:
                map_insert(ctx, m, x.fields[0], x.fields[1])
        return m
    if h == "std::string::String":
        s = SStr()
        for x in items:
            s = s.concat(as_sstr(x))
        return StringObj(s)
    if h == "std::collections::VecDeque":
        return VecObj(items)
    if h == "std::result::Result":
        inner = target.generics()[0]
        out = []
        for x in items:
            if x.variant == 1:
                return x
            out.append(x.fields[0])
        return res_ok(collect_into(ctx, inner, seq_iter(out)))
    if h == "std::option::Option":
        inner = target.generics()[0]
        out = []
        for x in items:
            if x.variant == 0:
                return x
            out.append(x.fields[0])
        return opt_some(collect_into(ctx, inner, seq_iter(out)))
    raise Inconclusive("collect into %s" % h)


def _selfty(cty):
    # std::collections::HashMap::<K, V>::new  -> type = path without last segment
    if cty.kind == "path":
        from .rtypes import Ty
        return Ty("path", cty.a[:-1])
    return cty.a


for _h in MAPS:
    pass


def _reg(names, fn):
    for h in MAPS:
        for n in names:
            REG.exact[h + "::" + n] = fn


def m_map_new(ctx, cty, a):
    return new_map_for(_selfty(cty))


_reg(["new", "with_capacity", "default"], m_map_new)
for _h in MAPS:
    REG.exact["<%s as std::default::Default>::default" % _h] = lambda ctx, cty, a: new_map_for(cty.a)


def m_map_len(ctx, cty, a):
    return len(deref(a[0]).entries)


def m_map_is_empty(ctx, cty, a):
    return len(deref(a[0]).entries) == 0


def m_map_clear(ctx, cty, a):
    m = deref(a[0])
    for e in m.entries:
        ctx.drop_value(e[1])
    del m.entries[:]
    return unit()


def m_map_contains(ctx, cty, a):
    return map_find(ctx, deref(a[0]), a[1]) is not None


def m_map_get(ctx, cty, a):
    m = deref(a[0])
    i = map_find(ctx, m, a[1])
    if i is None:
        return opt_none()
    if m.is_set:
        return opt_some(Ref(m.entries[i], 0))
    return opt_some(Ref(m.entries[i], 1, True))


def m_map_get_key_value(ctx, cty, a):
    m = deref(a[0])
    i = map_find(ctx, m, a[1])
    if i is None:
        return opt_none()
    return opt_some(tup(Ref(m.entries[i], 0), Ref(m.entries[i], 1)))


def m_map_insert(ctx, cty, a):
    m = deref(a[0])
    if m.is_set:
        i = map_find(ctx, m, a[1])
        if i is not None:
            return False
        map_insert(ctx, m, a[1], unit())
        return True
    old = map_insert(ctx, m, a[1], a[2])
    return opt_none() if old is None else opt_some(old)


def m_map_remove(ctx, cty, a):
    m = deref(a[0])
    i = map_find(ctx, m, a[1])
    if m.is_set:
        if i is None:
            return False
        m.entries.pop(i)
        return True
    if i is None:
        return opt_none()
    e = m.entries.pop(i)
    return opt_some(e[1])


def m_map_iter(ctx, cty, a):
    return to_iter(ctx, a[0] if type(a[0]) is Ref else new_ref(a[0]))


def m_map_iter_mut(ctx, cty, a):
    r = a[0]
    return to_iter(ctx, Ref(r.lst, r.idx, True) if type(r) is Ref else new_ref(r, True))


def m_map_keys(ctx, cty, a):
    m = deref(a[0])
    order = map_order(ctx, m)
    return seq_iter([Ref(m.entries[i], 0) for i in order], "keys")


def m_map_values(ctx, cty, a):
    m = deref(a[0])
    order = map_order(ctx, m)
    return seq_iter([Ref(m.entries[i], 1, True) for i in order], "values")


def m_map_into_keys(ctx, cty, a):
    m = deref(a[0])
    order = map_order(ctx, m)
    return seq_iter([m.entries[i][0] for i in order], "into_keys")


def m_map_into_values(ctx, cty, a):
    m = deref(a[0])
    order = map_order(ctx, m)
    return seq_iter([m.entries[i][1] for i in order], "into_values")


def m_map_retain(ctx, cty, a):
    m = deref(a[0])
    f = new_ref(a[1], True)
    order = map_order(ctx, m)
    keep = set()
    for i in order:
        e = m.entries[i]
        if m.is_set:
            r = ctx.call_closure(f, [Ref(e, 0)])
        else:
            r = ctx.call_closure(f, [Ref(e, 0), Ref(e, 1, True)])
        if ctx.decide(r):
            keep.add(i)
        else:
            ctx.drop_value(e[1])
    m.entries[:] = [e for i, e in enumerate(m.entries) if i in keep]
    return unit()


def m_map_entry(ctx, cty, a):
    m = deref(a[0])
    i = map_find(ctx, m, a[1])
    # Entry: Vacant=0, Occupied=1
    if i is None:
        return Agg("map::Entry", 0, [m, a[1]])
    return Agg("map::Entry", 1, [m, m.entries[i]])


def m_map_first(ctx, cty, a):
    m = deref(a[0])
    if not m.entries:
        return opt_none()
    e = m.entries[0]
    return opt_some(Ref(e, 0)) if m.is_set else opt_some(tup(Ref(e, 0), Ref(e, 1)))


def m_map_last(ctx, cty, a):
    m = deref(a[0])
    if not m.entries:
        return opt_none()
    e = m.entries[-1]
    return opt_some(Ref(e, 0)) if m.is_set else opt_some(tup(Ref(e, 0), Ref(e, 1)))


def m_map_extend(ctx, cty, a):
    m = deref(a[0])
    for it in iter_drain(ctx, to_iter(ctx, a[1])):
        if m.is_set:
            map_insert(ctx, m, it, unit())
        else:
            map_insert(ctx, m, it.fields[0], it.fields[1])
    return unit()


_reg(["len"], m_map_len)
_reg(["is_empty"], m_map_is_empty)
_reg(["clear"], m_map_clear)
_reg(["contains_key", "contains"], m_map_contains)
_reg(["get", "get_mut"], m_map_get)
_reg(["get_key_value"], m_map_get_key_value)
_reg(["insert"], m_map_insert)
_reg(["remove", "take", "shift_remove", "swap_remove"], m_map_remove)
_reg(["iter"], m_map_iter)
_reg(["iter_mut"], m_map_iter_mut)
_reg(["keys"], m_map_keys)
_reg(["values", "values_mut"], m_map_values)
_reg(["into_keys"], m_map_into_keys)
_reg(["into_values"], m_map_into_values)
_reg(["retain"], m_map_retain)
_reg(["entry"], m_map_entry)
_reg(["first", "first_key_value"], m_map_first)
_reg(["last", "last_key_value"], m_map_last)
_reg(["extend"], m_map_extend)


@model_re(r"std::collections::(btree_map|hash_map)::Entry::or_insert_with$")
def m_entry_or_insert_with(ctx, cty, a):
    e = a[0]
    if e.variant == 1:
        return Ref(e.fields[1], 1, True)
    m, key = e.fields
    v = ctx.call_closure(a[1], [])
    map_insert(ctx, m, key, v)
    i = map_find(ctx, m, key)
    return Ref(m.entries[i], 1, True)


@model_re(r"std::collections::(btree_map|hash_map)::Entry::or_insert$")
def m_entry_or_insert(ctx, cty, a):
    e = a[0]
    if e.variant == 1:
        return Ref(e.fields[1], 1, True)
    m, key = e.fields
    map_insert(ctx, m, key, a[1])
    i = map_find(ctx, m, key)
    return Ref(m.entries[i], 1, True)


@model_re(r"std::collections::(btree_map|hash_map)::Entry::or_default$")
def m_entry_or_default(ctx, cty, a):
    e = a[0]
    if e.variant == 1:
        return Ref(e.fields[1], 1, True)
    from .models_core import default_for
    gs = [g for g in cty.a[-2][1] if g.kind != "lit"]
    if len(gs) < 2:
        raise Inconclusive("Entry::or_default without value type")
    m, key = e.fields
    map_insert(ctx, m, key, default_for(ctx, gs[1]))
    i = map_find(ctx, m, key)
    return Ref(m.entries[i], 1, True)


# sets: set algebra used by harness oracles
@model_re(r"std::collections::(BTreeSet|HashSet)::is_subset$")
def m_set_is_subset(ctx, cty, a):
    s, o = deref(a[0]), deref(a[1])
    for e in s.entries:
        if map_find(ctx, o, e[0]) is None:
            return False
    return True


# ------------------------------------------------------------------ LruCache (lru 0.10)
@model("lru::LruCache::new")
def m_lru_new(ctx, cty, a):
    cap = a[0]
    if type(cap) is Agg:
        cap = cap.fields[0]
    cap = ctx.concretize(cap, "lru cap")
    return LruObj(cap)


def lru_find(ctx, l, key):
    for i, e in enumerate(l.entries):
        if key_eq(ctx, e[0], key):
            return i
    return None


@model("lru::LruCache::get", "lru::LruCache::get_mut")
def m_lru_get(ctx, cty, a):
    l = deref(a[0])
    i = lru_find(ctx, l, a[1])
    if i is None:
        return opt_none()
    e = l.entries.pop(i)
    l.entries.insert(0, e)
    return opt_some(Ref(e, 1, True))


@model("lru::LruCache::peek")
def m_lru_peek(ctx, cty, a):
    l = deref(a[0])
    i = lru_find(ctx, l, a[1])
    if i is None:
        return opt_none()
    return opt_some(Ref(l.entries[i], 1))


@model("lru::LruCache::contains")
def m_lru_contains(ctx, cty, a):
    l = deref(a[0])
    return lru_find(ctx, l, a[1]) is not None


@model("lru::LruCache::put")
def m_lru_put(ctx, cty, a):
    l = deref(a[0])
    i = lru_find(ctx, l, a[1])
    if i is not None:
        e = l.entries.pop(i)
        old = e[1]
        e[1] = a[2]
        l.entries.insert(0, e)
        return opt_some(old)
    if len(l.entries) >= l.cap:
        l.entries.pop()
    l.entries.insert(0, [a[1], a[2]])
    return opt_none()


@model("lru::LruCache::pop")
def m_lru_pop(ctx, cty, a):
    l = deref(a[0])
    i = lru_find(ctx, l, a[1])
    if i is None:
        return opt_none()
    return opt_some(l.entries.pop(i)[1])


@model("lru::LruCache::clear")
def m_lru_clear(ctx, cty, a):
    del deref(a[0]).entries[:]
    return unit()


@model("lru::LruCache::len")
def m_lru_len(ctx, cty, a):
    return len(deref(a[0]).entries)


@model("std::num::NonZero::new")
def m_nonzero_new(ctx, cty, a):
    v = a[0]
    if ctx.decide(v == 0):
        return opt_none()
    return opt_some(Agg("std::num::NonZero", None, [v]))


@model("std::num::NonZero::get")
def m_nonzero_get(ctx, cty, a):
    return a[0].fields[0]


# ------------------------------------------------------------------ further map / set operations
def m_map_drain(ctx, cty, a):
    m = deref(a[0])
    order = map_order(ctx, m)
    ents = [m.entries[i] for i in order]
    m.entries = []
    if m.is_set:
        return seq_iter([e[0] for e in ents], "drain")
    return seq_iter([tup(e[0], e[1]) for e in ents], "drain")


def m_map_pop_first(ctx, cty, a):
    m = deref(a[0])
    if not m.entries:
        return opt_none()
    e = m.entries.pop(0)
    return opt_some(e[0]) if m.is_set else opt_some(tup(e[0], e[1]))


def m_map_pop_last(ctx, cty, a):
    m = deref(a[0])
    if not m.entries:
        return opt_none()
    e = m.entries.pop()
    return opt_some(e[0]) if m.is_set else opt_some(tup(e[0], e[1]))


def m_map_remove_entry(ctx, cty, a):
    m = deref(a[0])
    i = map_find(ctx, m, a[1])
    if i is None:
        return opt_none()
    e = m.entries.pop(i)
    return opt_some(tup(e[0], e[1]))


def m_map_append(ctx, cty, a):
    m, o = deref(a[0]), deref(a[1])
    for k, v in o.entries:
        map_insert(ctx, m, k, v)
    o.entries = []
    return unit()


def _set_op(kind):
    def f(ctx, cty, a):
        s, o = deref(a[0]), deref(a[1])
        out = []
        if kind in ("union",):
            out = [Ref(e, 0) for e in s.entries]
            for e in o.entries:
                if map_find(ctx, s, e[0]) is None:
                    out.append(Ref(e, 0))
        elif kind == "intersection":
            out = [Ref(e, 0) for e in s.entries if map_find(ctx, o, e[0]) is not None]
        elif kind == "difference":
            out = [Ref(e, 0) for e in s.entries if map_find(ctx, o, e[0]) is None]
        elif kind == "symmetric_difference":
            out = [Ref(e, 0) for e in s.entries if map_find(ctx, o, e[0]) is None] + [Ref(e, 0) for e in o.entries if map_find(ctx, s, e[0]) is None]
        return seq_iter(out, kind)
    return f


def m_set_is_disjoint(ctx, cty, a):
    s, o = deref(a[0]), deref(a[1])
    return all(map_find(ctx, o, e[0]) is None for e in s.entries)


def m_set_is_superset(ctx, cty, a):
    s, o = deref(a[0]), deref(a[1])
    return all(map_find(ctx, s, e[0]) is not None for e in o.entries)


def m_set_is_subset2(ctx, cty, a):
    s, o = deref(a[0]), deref(a[1])
    return all(map_find(ctx, o, e[0]) is not None for e in s.entries)


def m_set_replace(ctx, cty, a):
    m = deref(a[0])
    i = map_find(ctx, m, a[1])
    if i is None:
        map_insert(ctx, m, a[1], unit())
        return opt_none()
    old = m.entries[i][0]
    m.entries[i][0] = a[1]
    return opt_some(old)


_reg(["drain"], m_map_drain)
_reg(["pop_first"], m_map_pop_first)
_reg(["pop_last"], m_map_pop_last)
_reg(["remove_entry"], m_map_remove_entry)
_reg(["append"], m_map_append)
for _k in ("union", "intersection", "difference", "symmetric_difference"):
    _reg([_k], _set_op(_k))
_reg(["is_disjoint"], m_set_is_disjoint)
_reg(["is_superset"], m_set_is_superset)
_reg(["is_subset"], m_set_is_subset2)
_reg(["replace"], m_set_replace)


@model_re(r"std::collections::(btree_map|hash_map)::Entry::and_modify$")
def m_entry_and_modify(ctx, cty, a):
    e = a[0]
    if e.variant == 1:
        ctx.call_closure(a[1], [Ref(e.fields[1], 1, True)])
    return e


@model_re(r"std::collections::(btree_map|hash_map)::Entry::key$")
def m_entry_key(ctx, cty, a):
    e = deref(a[0])
    if e.variant == 1:
        return Ref(e.fields[1], 0)
    return Ref(e.fields, 1)
