"""Parser for Rust type / path strings as printed in MIR dumps (-Ztrim-diagnostic-paths=no)."""
import re
from functools import lru_cache


class Ty:
    __slots__ = ("kind", "a", "b", "c")

    def __init__(self, kind, a=None, b=None, c=None):
        self.kind = kind
        self.a = a
        self.b = b
        self.c = c

    def __repr__(self):
        return "Ty(%s,%r,%r,%r)" % (self.kind, self.a, self.b, self.c)

    # ---- helpers
    def head(self):
        """Type constructor name without generics."""
        k = self.kind
        if k == "path":
            return "::".join(s[0] for s in self.a)
        if k == "qpath":
            t = self.b.head() if self.b is not None else "_"
            return "<%s as %s>::%s" % (self.a.head(), t, "::".join(s[0] for s in self.c))
        if k == "ref":
            return "&" + self.b.head()
        if k == "ptr":
            return "*" + self.b.head()
        if k == "tuple":
            return "(" + ",".join(x.head() for x in self.a) + ")"
        if k == "slice":
            return "[_]"
        if k == "array":
            return "[_;N]"
        if k == "closure":
            return "{closure@%s}" % self.a
        if k == "dyn":
            return "dyn " + self.a
        if k == "fn":
            return "fn"
        if k == "lit":
            return str(self.a)
        return self.kind

    def generics(self):
        """Generic args of the last path segment."""
        if self.kind == "path":
            return self.a[-1][1]
        return []

    def all_generics(self):
        if self.kind == "path":
            out = []
            for s in self.a:
                out.extend(s[1])
            return out
        return []

    def strip_refs(self):
        t = self
        while t.kind in ("ref", "ptr"):
            t = t.b
        return t


class P:
    def __init__(self, s):
        self.s = s
        self.i = 0

    def peek(self, n=1):
        return self.s[self.i:self.i + n]

    def eof(self):
        return self.i >= len(self.s)

    def ws(self):
        while self.i < len(self.s) and self.s[self.i] == " ":
            self.i += 1

    def eat(self, t):
        if self.s.startswith(t, self.i):
            self.i += len(t)
            return True
        return False

    def expect(self, t):
        if not self.eat(t):
            raise ValueError("expected %r at %d in %r" % (t, self.i, self.s))

    def ident(self):
        m = re.compile(r"[A-Za-z_][A-Za-z0-9_]*|[0-9]+").match(self.s, self.i)
        if not m:
            raise ValueError("ident at %d in %r" % (self.i, self.s))
        self.i = m.end()
        return m.group(0)

    def lifetime(self):
        m = re.compile(r"'[A-Za-z_0-9]+").match(self.s, self.i)
        if m:
            self.i = m.end()
            return m.group(0)
        return None

    def balanced(self, open_ch, close_ch):
        """consume from an opening bracket to its match; return inner text"""
        assert self.s[self.i] == open_ch
        d = 0
        j = self.i
        while j < len(self.s):
            c = self.s[j]
            if c == open_ch:
                d += 1
            elif c == close_ch:
                d -= 1
                if d == 0:
                    inner = self.s[self.i + 1:j]
                    self.i = j + 1
                    return inner
            j += 1
        raise ValueError("unbalanced in %r" % self.s)

    def generic_args(self):
        # at '<'
        self.expect("<")
        args = []
        while True:
            self.ws()
            if self.eat(">"):
                break
            lt = self.lifetime()
            if lt is None:
                # associated type binding Name = Ty
                save = self.i
                m = re.compile(r"([A-Za-z_][A-Za-z0-9_]*) = ").match(self.s, self.i)
                if m:
                    self.i = m.end()
                    t = self.ty()
                    args.append(Ty("binding", m.group(1), t))
                else:
                    self.i = save
                    args.append(self.ty())
            self.ws()
            if self.eat(","):
                continue
            self.ws()
            if self.eat(">"):
                break
        return args

    def path_segments(self):
        segs = []
        while True:
            if self.peek() == "<":
                # <impl ...> segment or generic args following '::'
                if self.s.startswith("<impl ", self.i):
                    inner = self.balanced("<", ">")
                    body = inner[5:]
                    if body.startswith("at "):
                        segs.append(("<impl at %s>" % body[3:], []))
                    else:
                        try:
                            t = parse_type(body)
                            segs.append(("<impl %s>" % t.head(), [t]))
                        except ValueError:
                            segs.append(("<impl %s>" % body, []))
                else:
                    ga = self.generic_args()
                    if segs:
                        segs[-1] = (segs[-1][0], segs[-1][1] + ga)
                    else:
                        raise ValueError("generic args without segment in %r" % self.s)
            elif self.peek() == "{":
                inner = self.balanced("{", "}")
                segs.append(("{" + inner + "}", []))
            else:
                name = self.ident()
                ga = []
                if self.peek() == "<":
                    ga = self.generic_args()
                segs.append((name, ga))
            if self.s.startswith("::", self.i):
                self.i += 2
                continue
            break
        return segs

    def ty(self):
        self.ws()
        s = self.s
        if self.eat("&"):
            self.lifetime()
            self.ws()
            mut = self.eat("mut ")
            return Ty("ref", mut, self.ty())
        if self.eat("*const "):
            return Ty("ptr", False, self.ty())
        if self.eat("*mut "):
            return Ty("ptr", True, self.ty())
        if self.eat("!"):
            return Ty("never")
        if self.peek() == "(":
            self.i += 1
            items = []
            while True:
                self.ws()
                if self.eat(")"):
                    break
                items.append(self.ty())
                self.ws()
                self.eat(",")
            return Ty("tuple", items)
        if self.peek() == "[":
            self.i += 1
            t = self.ty()
            self.ws()
            if self.eat(";"):
                self.ws()
                j = s.index("]", self.i)
                n = s[self.i:j]
                self.i = j + 1
                return Ty("array", t, n)
            self.expect("]")
            return Ty("slice", t)
        if self.peek() == "{":
            inner = self.balanced("{", "}")
            if inner.startswith("closure@"):
                loc = inner[len("closure@"):]
                return Ty("closure", loc.split(": ")[0], loc)
            return Ty("lit", "{" + inner + "}")
        if s.startswith("dyn ", self.i) or s.startswith("impl ", self.i):
            kw = "dyn" if s.startswith("dyn ", self.i) else "impl"
            self.i += len(kw) + 1
            bounds = []
            while True:
                self.ws()
                lt = self.lifetime()
                if lt is None:
                    if self.eat("for<"):
                        self.i -= 1
                        self.balanced("<", ">")
                        self.ws()
                    bounds.append(Ty("path", self.path_segments()) if self.peek() != "?" else None)
                self.ws()
                if self.eat("+ "):
                    continue
                break
            b0 = bounds[0].head() if bounds and bounds[0] is not None else "?"
            return Ty("dyn", b0, bounds)
        if s.startswith("for<", self.i):
            self.i += 3
            self.balanced("<", ">")
            self.ws()
            return self.ty()
        if s.startswith("unsafe ", self.i):
            self.i += 7
            return self.ty()
        if s.startswith('extern "', self.i):
            j = s.index('"', self.i + 8)
            self.i = j + 2
            return self.ty()
        if s.startswith("fn(", self.i):
            self.i += 2
            self.balanced("(", ")")
            ret = None
            if self.eat(" -> "):
                ret = self.ty()
            item = None
            self.ws()
            if self.peek() == "{":
                item = self.balanced("{", "}")
            return Ty("fn", item, ret)
        if self.peek() == "<":
            # qualified path <T as Trait>::rest  or <T>::rest
            self.i += 1
            selfty = self.ty()
            self.ws()
            trait = None
            if self.eat("as "):
                trait = Ty("path", self.path_segments())
            self.ws()
            self.expect(">")
            rest = []
            if self.eat("::"):
                rest = self.path_segments()
            return Ty("qpath", selfty, trait, rest)
        if self.peek() == "-" or self.peek().isdigit():
            m = re.compile(r"-?[0-9]+(_[a-z0-9]+)?").match(s, self.i)
            self.i = m.end()
            return Ty("lit", m.group(0))
        if self.peek() == "'":
            lt = self.lifetime()
            return Ty("lit", lt)
        if s.startswith("true", self.i) or s.startswith("false", self.i):
            v = self.ident()
            return Ty("lit", v)
        if self.peek() == "_" and not re.match(r"[A-Za-z0-9_]", self.peek(2)[1:] or " "):
            self.i += 1
            return Ty("infer")
        return Ty("path", self.path_segments())


@lru_cache(maxsize=None)
def parse_type(s):
    p = P(s.strip())
    t = p.ty()
    p.ws()
    if not p.eof():
        raise ValueError("trailing %r in type %r" % (p.s[p.i:], s))
    return t


@lru_cache(maxsize=None)
def parse_callee(s):
    """Parse a callee expression. Returns Ty (path or qpath)."""
    return parse_type(s)


def split_top(s, sep=","):
    """split at top-level separators (outside <>, (), [], {}, strings)"""
    out = []
    d = 0
    cur = []
    i = 0
    n = len(s)
    instr = None
    while i < n:
        c = s[i]
        if instr:
            cur.append(c)
            if c == "\\":
                i += 1
                if i < n:
                    cur.append(s[i])
            elif c == instr:
                instr = None
        elif c == '"':
            instr = c
            cur.append(c)
        elif c == "'" and re.match(r"'(\\.|[^\\'])'|'\\u\{[0-9a-fA-F]+\}'|'\\x[0-9a-fA-F]{2}'", s[i:]):
            m = re.match(r"'\\u\{[0-9a-fA-F]+\}'|'\\x[0-9a-fA-F]{2}'|'(\\.|[^\\'])'", s[i:])
            cur.append(m.group(0))
            i += len(m.group(0)) - 1
        elif c in "<([{":
            d += 1
            cur.append(c)
        elif c in ">)]}":
            if c == ">" and i > 0 and s[i - 1] in "-=":
                cur.append(c)
            else:
                d -= 1
                cur.append(c)
        elif c == sep and d == 0:
            out.append("".join(cur).strip())
            cur = []
        else:
            cur.append(c)
        i += 1
    last = "".join(cur).strip()
    if last:
        out.append(last)
    return out
