"""Models: anyhow, regex, sha2/hex, lazy_static, the harness `sym` API."""
import re
import hashlib
import z3
from .models import *
from .values import *
from .sstr import SStr
from .interp import Inconclusive
from .models_str import render_arguments


# ------------------------------------------------------------------ anyhow
@model("anyhow::__private::format_err", "anyhow::private::format_err")
def m_format_err(ctx, cty, a):
    return ErrObj(render_arguments(ctx, a[0]))


@model("anyhow::error::<impl anyhow::Error>::msg", "anyhow::Error::msg", "anyhow::error::<impl anyhow::Error>::new")
def m_anyhow_msg(ctx, cty, a):
    v = a[0]
    if isinstance(v, (SStr, StringObj)):
        return ErrObj(as_sstr(v))
    if isinstance(v, ErrObj):
        return v
    return ErrObj(v)


@model("<anyhow::Error as std::convert::From>::from")
def m_anyhow_from(ctx, cty, a):
    v = a[0]
    return v if isinstance(v, ErrObj) else ErrObj(v)


@model("<anyhow::Error as std::fmt::Display>::fmt", "<anyhow::Error as std::fmt::Debug>::fmt")
def m_anyhow_fmt(ctx, cty, a):
    e = deref(a[0])
    fm = deref(a[1])
    m = e.msg
    fm.fields[0] = fm.fields[0].concat(m if isinstance(m, SStr) else SStr.lit("<error>"))
    return res_ok(unit())


# ------------------------------------------------------------------ sha2 / hex: digest_bytes is modelled as a whole
def sym_digest(ctx, content):
    """SHA-256 hex digest of a (possibly symbolic) byte string. Concrete input: real SHA-256.
    Symbolic input: fresh lower-case hex characters, constrained to behave injectively with respect to
    every other content hashed on this path (collision freedom, also for the 7-character prefix that
    revisions use as their tail)."""
    for c, d in ctx.hashes:
        if c.same(content):
            return d
    if content.is_concrete():
        d = SStr.lit(hashlib.sha256(content.concrete().encode("latin-1")).hexdigest())
        n = int(ctx.opts.get("digest_len", 64))
        if n != 64:
            d = d.slice(0, n)
    else:
        n = int(ctx.opts.get("digest_len", 64))
        d = ctx.fresh_string("hex", n, "sha")
    pre = d.slice(0, 7)
    for c, d2 in ctx.hashes:
        if content.is_concrete() and c.is_concrete():
            continue
        e = content.eq(c)
        same_pre = pre.eq(d2.slice(0, 7))
        same_all = d.eq(d2)
        if e is True:
            ctx.add(same_all)
        elif e is False:
            ctx.add(z3.Not(same_pre) if same_pre is not False else True)
        else:
            ctx.add(z3.If(e, same_all, z3.Not(same_pre)))
    if content.is_concrete():
        ctx.hashes.append((content, d))
        return d
    ctx.hashes.append((content, d))
    ctx.assumptions.add("SHA-256 of symbolic content is modelled as an injective function yielding %d lower-case hex chars; "
                        "distinct contents also differ in their first 7 hex chars (no revision-tail collisions)" % n)
    return d


@model("melda::utils::digest_bytes", "utils::digest_bytes")
def m_digest_bytes(ctx, cty, a):
    return StringObj(sym_digest(ctx, as_sstr(a[0])))


@model("<sha2::digest::core_api::CoreWrapper as sha2::Digest>::new")
def m_sha_new(ctx, cty, a):
    return Agg("sha::Hasher", None, [SStr()])


@model("<sha2::digest::core_api::CoreWrapper as sha2::Digest>::update")
def m_sha_update(ctx, cty, a):
    h = deref(a[0])
    h.fields[0] = h.fields[0].concat(as_sstr(a[1]))
    return unit()


@model("<sha2::digest::core_api::CoreWrapper as sha2::Digest>::finalize")
def m_sha_finalize(ctx, cty, a):
    return Agg("sha::Output", None, [a[0].fields[0]])


@model("hex::encode")
def m_hex_encode(ctx, cty, a):
    v = a[0]
    if type(v) is Agg and v.ty == "sha::Output":
        return StringObj(sym_digest(ctx, v.fields[0]))
    s = as_sstr(v)
    if s.is_concrete():
        return StringObj(SStr.lit(s.concrete().encode("latin-1").hex()))
    raise Inconclusive("hex::encode of symbolic bytes")


# ------------------------------------------------------------------ lazy_static + regex
class RegexObj:
    def __init__(self, pattern):
        self.pattern = pattern
        self.py = re.compile(pattern)
        self.ast = None


@model("regex::Regex::new", "regex::regex::string::Regex::new")
def m_regex_new(ctx, cty, a):
    p = as_sstr(a[0])
    if not p.is_concrete():
        raise Inconclusive("symbolic regex pattern")
    return res_ok(RegexObj(p.text()))


def _caps(groups_named, groups_idx):
    return Agg("regex::Captures", None, [groups_named, groups_idx])


@model("regex::Regex::captures", "regex::regex::string::Regex::captures")
def m_regex_captures(ctx, cty, a):
    rx = deref(a[0])
    s = as_sstr(a[1])
    if s.is_concrete():
        text = s.concrete().encode("latin-1").decode("utf-8", "surrogateescape")
        m = rx.py.search(text)
        if m is None:
            return opt_none()

        def enc(t):
            return None if t is None else SStr.lit(t.encode("utf-8", "surrogateescape").decode("latin-1"))
        named = {k: enc(v) for k, v in m.groupdict().items()}
        idx = [enc(m.group(i)) for i in range(0, (rx.py.groups or 0) + 1)]
        return opt_some(_caps(named, idx))
    from .symregex import sym_captures
    r = sym_captures(ctx, rx, s)
    if r is None:
        return opt_none()
    return opt_some(_caps(r[0], r[1]))


@model("regex::Regex::is_match", "regex::regex::string::Regex::is_match")
def m_regex_is_match(ctx, cty, a):
    return m_regex_captures(ctx, cty, a).variant == 1


@model("regex::Captures::name", "regex::regex::string::Captures::name")
def m_caps_name(ctx, cty, a):
    c = deref(a[0])
    n = as_sstr(a[1]).concrete()
    g = c.fields[0].get(n)
    if g is None:
        return opt_none()
    return opt_some(Agg("regex::Match", None, [g]))


@model("regex::Captures::get", "regex::regex::string::Captures::get")
def m_caps_get(ctx, cty, a):
    c = deref(a[0])
    i = a[1]
    g = c.fields[1][i] if i < len(c.fields[1]) else None
    if g is None:
        return opt_none()
    return opt_some(Agg("regex::Match", None, [g]))


@model("regex::Match::as_str", "regex::regex::string::Match::as_str")
def m_match_as_str(ctx, cty, a):
    return deref(a[0]).fields[0]


# ------------------------------------------------------------------ harness sym API
def _log_input(ctx, kind, term):
    ctx.inputs.append((kind, term))


@model("verif_harness::sym::any_i64", "sym::any_i64")
def m_sym_any_i64(ctx, cty, a):
    v = ctx.fresh("i64")
    ctx.add(z3.And(v >= -(1 << 63), v < (1 << 63)))
    _log_input(ctx, "int", v)
    return v


@model("verif_harness::sym::any_u32", "sym::any_u32")
def m_sym_any_u32(ctx, cty, a):
    v = ctx.fresh("u32")
    ctx.add(z3.And(v >= 0, v < (1 << 32)))
    _log_input(ctx, "int", v)
    return v


@model("verif_harness::sym::any_u8", "sym::any_u8")
def m_sym_any_u8(ctx, cty, a):
    v = ctx.fresh("u8")
    ctx.add(z3.And(v >= 0, v < 256))
    _log_input(ctx, "int", v)
    return v


@model("verif_harness::sym::any_bool", "sym::any_bool")
def m_sym_any_bool(ctx, cty, a):
    v = ctx.fresh("b", "bool")
    _log_input(ctx, "bool", v)
    return v


@model("verif_harness::sym::range", "sym::range")
def m_sym_range(ctx, cty, a):
    """integer in [lo, hi] (inclusive)"""
    lo, hi = a[0], a[1]
    v = ctx.fresh("rng")
    ctx.add(z3.And(v >= lo, v <= hi))
    _log_input(ctx, "int", v)
    return v


@model("verif_harness::sym::choose", "sym::choose")
def m_sym_choose(ctx, cty, a):
    """concrete choice in [0, n) (forks)"""
    n = ctx.concretize(a[0], "choose")
    v = ctx.fresh("ch")
    ctx.add(z3.And(v >= 0, v < n))
    _log_input(ctx, "int", v)
    for i in range(n - 1):
        if ctx.decide(v == i):
            return i
    return n - 1


@model("verif_harness::sym::atom", "sym::atom")
def m_sym_atom(ctx, cty, a):
    from .models_json import jnum
    v = ctx.fresh("atom")
    ctx.add(z3.And(v >= 0, v < (1 << 62)))
    _log_input(ctx, "int", v)
    return jnum(v)


CLASSES = {0: "hex", 1: "lower", 2: "word", 3: "digit", 4: "printable", 5: "byte", 6: "alnum", 7: "jsonish", 8: "abr"}


@model("verif_harness::sym::string", "sym::string")
def m_sym_string(ctx, cty, a):
    """sym::string(class, min_len, max_len) -> String; the length is chosen by forking"""
    cls, lo, hi = CLASSES[a[0]], a[1], a[2]
    n = lo
    if hi > lo:
        ln = ctx.fresh("len")
        ctx.add(z3.And(ln >= lo, ln <= hi))
        n = ctx.concretize(ln, "string length")
    s = ctx.fresh_string(cls, n, "s_" + cls)
    _log_input(ctx, "str", s)
    return StringObj(s)


@model("verif_harness::sym::assume", "sym::assume")
def m_sym_assume(ctx, cty, a):
    c = a[0]
    if c is True:
        return unit()
    if c is False:
        raise AssumeFail()
    c = z3.simplify(c)
    if z3.is_true(c):
        return unit()
    if z3.is_false(c) or not ctx.feasible(c):
        raise AssumeFail()
    ctx.add(c)
    return unit()


@model("verif_harness::sym::reach", "sym::reach")
def m_sym_reach(ctx, cty, a):
    ctx.reached.append(int(a[0]) if a else 0)
    return unit()


@model("verif_harness::sym::observe_i64", "sym::observe_i64", "verif_harness::sym::observe_bool", "sym::observe_bool")
def m_sym_observe_int(ctx, cty, a):
    ctx.observations.append(("int", "int", a[0]))
    return unit()


@model("verif_harness::sym::observe_str", "sym::observe_str")
def m_sym_observe_str(ctx, cty, a):
    ctx.observations.append(("str", "str", as_sstr(a[0])))
    return unit()


@model("verif_harness::sym::is_symbolic", "sym::is_symbolic")
def m_sym_is_symbolic(ctx, cty, a):
    return True


@model("verif_harness::sym::param", "sym::param")
def m_sym_param(ctx, cty, a):
    """concrete harness parameter number i (set by the driver)"""
    ps = ctx.opts.get("params", [])
    return int(ps[a[0]]) if a[0] < len(ps) else 0


@model("verif_harness::sym::scratch_dir", "sym::scratch_dir")
def m_sym_scratch_dir(ctx, cty, a):
    return StringObj(SStr.lit("/vfs/run"))


@model("verif_harness::sym::set_env", "sym::set_env")
def m_sym_set_env(ctx, cty, a):
    k = as_sstr(a[0]).concrete()
    v = ctx.concretize(a[1], "env value")
    ctx.env[k] = v
    return unit()


@model("verif_harness::sym::hash_order", "sym::hash_order")
def m_sym_hash_order(ctx, cty, a):
    """0 = canonical order, 1 = forward/reverse, 2 = all permutations (up to perm_limit entries)"""
    ctx.opts["hash_order"] = {0: "fixed", 1: "two", 2: "all"}[a[0]]
    return unit()


@model("verif_harness::sym::debug_str", "sym::debug_str")
def m_sym_debug_str(ctx, cty, a):
    return unit()


@model("verif_harness::sym::par_order", "sym::par_order")
def m_sym_par_order(ctx, cty, a):
    ctx.opts["par_order"] = {0: "fixed", 1: "two", 2: "all"}[a[0]]
    return unit()
