"""Bounded symbolic executor for rustc MIR (text form).

Control flow is concrete per path; data is symbolic (z3 terms). Every data dependent branch is
decided by the solver; when both sides are feasible the process forks (os.fork), so models can be
written in direct style and may call back into the interpreter.
"""
import os
import sys
import time
import json
import re
import traceback
import z3

from .values import *
from .sstr import SStr, CLASS_RANGES, SUBCLASS, DISJOINT, in_class_concrete, z3_in_ranges
from .rtypes import parse_type, Ty
from . import mirparse

INT_BITS = {"u8": 8, "u16": 16, "u32": 32, "u64": 64, "u128": 128, "usize": 64,
            "i8": 8, "i16": 16, "i32": 32, "i64": 64, "i128": 128, "isize": 64}


def int_range(ty):
    b = INT_BITS[ty]
    if ty[0] == "u":
        return 0, (1 << b) - 1
    return -(1 << (b - 1)), (1 << (b - 1)) - 1


def wrap_int(v, ty):
    b = INT_BITS[ty]
    v &= (1 << b) - 1
    if ty[0] == "i" and v >= (1 << (b - 1)):
        v -= 1 << b
    return v


class Inconclusive(Exception):
    def __init__(self, why):
        Exception.__init__(self, why)
        self.why = why


class Program:
    """Parsed MIR of all crates + resolution indices."""

    def __init__(self):
        self.funcs = {}
        self.closures = {}       # loc -> Function
        self.inherent = {}       # (TypeLast, method) -> Function
        self.traitimpl = {}      # (TraitLast, TypeLast, method) -> Function
        self.enums = {}          # enum head (last segment) -> [variant names]
        self.enum_discr = {}     # enum last segment -> {variant idx: discr}
        self.aliases = {}
        self.crates = []
        self.src_cache = {}
        self.lazy_init = {}
        self.rel_base = "/verif/harness"

    def add_crate(self, crate, mir_text):
        fs = mirparse.parse_mir(mir_text, crate)
        self.crates.append(crate)
        last_lazy = None
        for name, f in fs.items():
            f.crate = crate
            if "lazy_static" in name:
                base = name.split("#dup")[0]
                if base.endswith("::deref") and f.kind == "fn":
                    last_lazy = f.local_types.get(1, "").lstrip("&").strip()
                elif base.endswith("::deref::__static_ref_initialize") and last_lazy:
                    self.lazy_init[last_lazy] = f
            self.funcs[name] = f
            if "{closure#" in name.rsplit("::", 1)[-1] and f.kind == "fn":
                t = f.local_types.get(1, "")
                m = re.search(r"\{closure@([^}]*?): [0-9:]+\}", t)
                if m:
                    self.closures[m.group(1)] = f
        self._index_impls(fs)

    def _read_src(self, path):
        if path not in self.src_cache:
            try:
                real = path if os.path.isabs(path) else os.path.join(self.rel_base, path)
                self.src_cache[path] = open(real, encoding="utf-8").read().split("\n")
            except OSError:
                self.src_cache[path] = None
        return self.src_cache[path]

    def scan_source(self, path):
        """collect enum declarations and type aliases from a source file"""
        try:
            txt = open(path, encoding="utf-8").read()
        except OSError:
            return
        for m in re.finditer(r"\benum\s+(\w+)\s*(?:<[^>]*>)?\s*\{(.*?)\n\}", txt, re.S):
            body = re.sub(r"//[^\n]*", "", m.group(2))
            body = re.sub(r"#\[[^\]]*\]", "", body)
            names = []
            d = 0
            cur = ""
            for ch in body:
                if ch in "({[<":
                    d += 1
                elif ch in ")}]>":
                    d -= 1
                elif ch == "," and d == 0:
                    names.append(cur)
                    cur = ""
                    continue
                if d == 0:
                    cur += ch
            names.append(cur)
            vs = []
            for n_ in names:
                n_ = n_.strip()
                if n_:
                    vs.append(re.match(r"\w+", n_).group(0))
            self.enums[m.group(1)] = vs
        for m in re.finditer(r"\btype\s+(\w+)\s*=\s*([^;]+);", txt):
            self.aliases[m.group(1)] = m.group(2).strip()

    def _index_impls(self, fs):
        for name, f in fs.items():
            m = re.search(r"<impl at ([^:>]+):(\d+):(\d+): \d+:\d+>::(\w+)$", name)
            if not m:
                continue
            path, line, col, method = m.group(1), int(m.group(2)), int(m.group(3)), m.group(4)
            hdr = self._impl_header(path, line, col)
            if hdr is None:
                continue
            trait, selfty = hdr
            if trait is None:
                self.inherent[(selfty, method)] = f
            else:
                self.traitimpl[(trait, selfty, method)] = f

    def _impl_header(self, path, line, col):
        key = (path, line, col)
        c = self.src_cache.get(key)
        if c is not None:
            return c
        lines = self._read_src(path)
        if lines is None:
            return None
        txt = lines[line - 1][col - 1:]
        j = line
        while "{" not in txt and j < len(lines) and j < line + 8:
            txt += " " + lines[j]
            j += 1
        txt = txt.split("{")[0].strip()
        res = None
        if txt.startswith("#["):
            # derive / attribute macro: #[derive(A, B)] at column -> figure out which trait by column
            # the impl span points at the trait name inside the derive list
            t = re.match(r"(\w+)", lines[line - 1][col - 1:])
            # find the type name: next struct/enum declaration
            k = line - 1
            tyname = None
            while k < len(lines) and k < line + 12:
                mm = re.search(r"\b(struct|enum)\s+(\w+)", lines[k])
                if mm:
                    tyname = mm.group(2)
                    break
                k += 1
            if t and tyname:
                res = (t.group(1), tyname)
        elif txt.startswith("impl"):
            body = txt[4:].strip()
            if body.startswith("<"):
                d = 0
                for i, ch in enumerate(body):
                    if ch == "<":
                        d += 1
                    elif ch == ">":
                        d -= 1
                        if d == 0:
                            body = body[i + 1:].strip()
                            break
            body = body.split(" where ")[0].strip()
            if " for " in body:
                tr, ty = body.split(" for ", 1)
                res = (self._last(tr), self._last(self.aliases.get(ty.strip(), ty)))
            else:
                res = (None, self._last(self.aliases.get(body.strip(), body)))
        else:
            # derive-like: the span starts at the trait name inside #[derive(...)] or autoimpl
            t = re.match(r"(\w+)", txt)
            k = line - 1
            tyname = None
            while k < len(lines) and k < line + 12:
                mm = re.search(r"\b(struct|enum)\s+(\w+)", lines[k])
                if mm:
                    tyname = mm.group(2)
                    break
                k += 1
            if t and tyname:
                res = (t.group(1), tyname)
        self.src_cache[key] = res
        return res

    @staticmethod
    def _last(t):
        t = t.strip()
        t = re.sub(r"<.*", "", t)
        t = t.lstrip("&").strip()
        return t.split("::")[-1].strip()


# ----------------------------------------------------------------------------------------------


class Stats:
    def __init__(self):
        self.stmts = 0
        self.calls = 0
        self.queries = 0
        self.solver_time = 0.0
        self.forks = 0
        self.funcs = {}


class Ctx:
    """Per-process execution context."""

    def __init__(self, program, models, outdir, opts=None):
        self.prog = program
        self.models = models
        self.outdir = outdir
        self.opts = opts or {}
        self.solver = z3.Solver()
        self.solver.set("timeout", int(self.opts.get("query_timeout_ms", 20000)))
        self.pc_len = 0
        self.decisions = []
        self.preset = list(self.opts.get("preset") or [])
        self.stats = Stats()
        self.inputs = []       # (kind, z3 term or concrete)
        self.observations = []
        self.nd = []           # internal nondeterministic choices (names)
        self.reached = []
        self.children = []
        self.is_child = False
        self.borrowed_token = False
        self.sem = None
        self.fresh_n = 0
        self.call_cache = {}
        self.const_cache = {}
        self.stack = []
        self.deadline = self.opts.get("deadline")
        self.max_steps = int(self.opts.get("max_steps", 5_000_000))
        self.assumptions = set()
        self.hashes = []       # (content SStr, digest SStr) pairs of the symbolic hash model
        self.held = []         # lock guards currently alive
        self.harness = None
        self.char_cls = {}
        self.statics = {}
        self.lazy = {}
        self.env = dict(self.opts.get("env") or {})
        self.perm_limit = int(self.opts.get("perm_limit", 3))
        self.nofork = bool(self.opts.get("nofork"))
        self._out = None

    # ---------------- symbols
    def fresh(self, prefix, sort="int"):
        self.fresh_n += 1
        name = "%s!%d" % (prefix, self.fresh_n)
        if sort == "int":
            return z3.Int(name)
        if sort == "bool":
            return z3.Bool(name)
        if sort == "str":
            return z3.String(name)
        raise ValueError(sort)

    def fresh_char(self, cls, prefix="c"):
        v = self.fresh(prefix)
        self.add(z3_in_ranges(v, CLASS_RANGES[cls]))
        self.char_cls[v.get_id()] = cls
        return v

    def fresh_string(self, cls, n, prefix="s"):
        return SStr.of_chars([self.fresh_char(cls, prefix) for _ in range(n)])

    def char_in(self, c, cls):
        """decide membership of a byte in a character class (may fork)"""
        if type(c) is int:
            return in_class_concrete(c, cls)
        k = self.char_cls.get(c.get_id())
        if k is not None:
            if k == cls or (k, cls) in SUBCLASS:
                return True
            if (k, cls) in DISJOINT:
                return False
        return self.decide(z3_in_ranges(c, CLASS_RANGES[cls]))

    def add(self, c):
        if c is True:
            return
        self.solver.add(c)
        self.pc_len += 1

    # ---------------- solver
    def _check(self, *extra):
        t = time.time()
        self.stats.queries += 1
        r = self.solver.check(*extra)
        self.stats.solver_time += time.time() - t
        if r == z3.unknown:
            raise Inconclusive("solver unknown: %s" % self.solver.reason_unknown())
        return r == z3.sat

    def feasible(self, c):
        return self._check(c)

    def decide(self, cond):
        """Decide a data-dependent branch. Forks when both outcomes are feasible."""
        if cond is True or cond is False:
            return cond
        if not isinstance(cond, z3.BoolRef):
            if isinstance(cond, int):
                return cond != 0
            if isinstance(cond, z3.ArithRef):
                cond = cond != 0
            else:
                raise Inconclusive("decide on %r" % (cond,))
        c = z3.simplify(cond)
        if z3.is_true(c):
            return True
        if z3.is_false(c):
            return False
        if self.deadline and time.time() > self.deadline:
            raise Inconclusive("time budget exceeded")
        if self.preset:
            d = self.preset.pop(0)
            self.decisions.append(d)
            self.add(c if d else z3.Not(c))
            return d
        t_ok = self._check(c)
        if not t_ok:
            return False
        f_ok = self._check(z3.Not(c))
        if not f_ok:
            return True
        # both feasible
        took = self.fork()
        self.decisions.append(took)
        self.add(c if took else z3.Not(c))
        return took

    def must(self, cond):
        """True iff cond holds on every model of the path condition (no fork)."""
        if cond is True or cond is False:
            return cond
        c = z3.simplify(cond)
        if z3.is_true(c):
            return True
        if z3.is_false(c):
            return False
        return not self._check(z3.Not(c))

    def choose(self, n, label="nd"):
        """nondeterministic choice in range(n) (forks)"""
        if n <= 1:
            return 0
        v = self.fresh(label)
        self.add(z3.And(v >= 0, v < n))
        self.nd.append((label, v))
        for i in range(n - 1):
            if self.decide(v == i):
                return i
        return n - 1

    def concretize(self, v, what="value", limit=64):
        """fork over the feasible concrete values of an integer term"""
        if not is_sym(v):
            return v
        s = z3.simplify(v)
        if z3.is_int_value(s):
            return s.as_long()
        n = 0
        while True:
            if not self._check():
                raise Inconclusive("infeasible in concretize")
            m = self.solver.model()
            c = m.eval(v, model_completion=True).as_long()
            if self.decide(v == c):
                return c
            n += 1
            if n > limit:
                raise Inconclusive("concretize %s: too many values" % what)

    # ---------------- forking
    def fork(self):
        if self.nofork:
            raise Inconclusive("fork needed but disabled")
        self.stats.forks += 1
        if self.opts.get("profile_forks"):
            site = " < ".join(x.split("::")[-1] for x in self.stack[-3:][::-1])
            self.stats.funcs["@fork " + site] = self.stats.funcs.get("@fork " + site, 0) + 1
        self.reap(False)
        got = self.sem.acquire(block=False) if self.sem is not None else False
        sys.stdout.flush()
        sys.stderr.flush()
        if self._out:
            self._out.flush()
        pid = os.fork()
        if pid == 0:
            # child takes the True branch
            self.is_child = True
            self.children = []
            self.borrowed_token = not got
            self.stats.__init__()
            self._out = None
            return True
        if got:
            self.children.append(pid)
        else:
            # no free worker slot: lend ours to the child and wait (depth-first)
            while True:
                try:
                    os.waitpid(pid, 0)
                    break
                except InterruptedError:
                    continue
                except ChildProcessError:
                    break
        return False

    def reap(self, block):
        rest = []
        for pid in self.children:
            try:
                r, _ = os.waitpid(pid, 0 if block else os.WNOHANG)
                if r == 0:
                    rest.append(pid)
            except ChildProcessError:
                pass
        self.children = rest

    def emit(self, rec):
        if self._out is None:
            self._out = open(os.path.join(self.outdir, "%d.jsonl" % os.getpid()), "a")
        self._out.write(json.dumps(rec) + "\n")
        self._out.flush()

    # ---------------- path driver
    def run_path(self, harness_fn, args):
        """Runs the harness function; handles path end for this process and (through fork) for every
        descendant process. Returns only in the root process."""
        status = "ok"
        info = {}
        try:
            self.call_function(harness_fn, args)
        except PanicPath as e:
            status = "panic"
            info = {"msg": str(e.msg), "kind": e.kind, "where": e.where or list(self.stack[-6:])}
        except AssumeFail:
            status = "pruned"
        except Unmodelled as e:
            status = "unmodelled"
            info = {"what": str(e), "where": list(self.stack[-4:])}
        except Inconclusive as e:
            status = "inconclusive"
            info = {"why": e.why, "where": list(self.stack[-4:])}
        except RecursionError:
            status = "inconclusive"
            info = {"why": "python recursion limit"}
        except Exception as e:  # executor bug: never a verdict
            status = "internal_error"
            info = {"err": repr(e), "tb": traceback.format_exc()[-3000:], "where": list(self.stack[-4:])}
        rec = {"status": status, "decisions": "".join("1" if d else "0" for d in self.decisions),
               "reached": self.reached, "harness": self.harness}
        rec.update(info)
        try:
            if status in ("ok", "panic"):
                self.finish_model(rec, status)
        except Inconclusive as e:
            rec["status"] = "inconclusive"
            rec["why"] = "model: " + e.why
        except Exception as e:
            rec["status"] = "internal_error"
            rec["err"] = repr(e)
            rec["tb"] = traceback.format_exc()[-2000:]
        self.emit(rec)
        self.reap(True)
        st = self.stats
        self.emit({"status": "stats", "stmts": st.stmts, "calls": st.calls, "queries": st.queries,
                   "solver_time": st.solver_time, "forks": st.forks, "funcs": st.funcs,
                   "assumptions": sorted(self.assumptions)})
        if self.is_child:
            if self._out:
                self._out.close()
            if self.sem is not None and not self.borrowed_token:
                self.sem.release()
            os._exit(0)

    def finish_model(self, rec, status):
        want = status == "panic" or self.opts.get("models_for_ok", True)
        if not want:
            return
        if not self._check():
            rec["status"] = "inconclusive"
            rec["why"] = "path condition unsat at end"
            return
        m = self.solver.model()
        rec["inputs"] = [self.eval_input(m, k, t) for (k, t) in self.inputs]
        rec["observations"] = [[k, self.eval_input(m, k2, t)] for (k, k2, t) in self.observations]
        rec["hash_dependent"] = any(not d.is_concrete() for _, d in self.hashes) or (bool(self.hashes) and int(self.opts.get("digest_len", 64)) != 64)
        if status == "panic" and rec["hash_dependent"]:
            # the real SHA-256 will not reproduce the model's digests: offer alternative inputs
            alts = []
            terms = []
            for (k, t) in self.inputs:
                if isinstance(t, SStr):
                    terms.extend(t.sym_vars())
                elif is_sym(t):
                    terms.append(t)
            self.solver.push()
            try:
                for _ in range(int(self.opts.get("alt_models", 24))):
                    if not terms:
                        break
                    self.solver.add(z3.Or(*[x != m.eval(x, model_completion=True) for x in terms]))
                    if self.solver.check() != z3.sat:
                        break
                    m = self.solver.model()
                    alts.append([self.eval_input(m, k, t) for (k, t) in self.inputs])
            finally:
                self.solver.pop()
            rec["alt_inputs"] = alts

    def eval_input(self, m, kind, t):
        if isinstance(t, (int, bool, str)):
            if isinstance(t, str):
                return t
            return t
        if isinstance(t, SStr):
            if t.is_concrete():
                return t.concrete()
            return "".join(chr(c if type(c) is int else m.eval(c, model_completion=True).as_long()) for c in t.chars)
        v = m.eval(t, model_completion=True)
        if z3.is_int_value(v):
            return v.as_long()
        if z3.is_true(v):
            return True
        if z3.is_false(v):
            return False
        if z3.is_string_value(v):
            return z3str_to_py(v)
        return str(v)

    # ---------------- interpretation
    def call_function(self, f, args):
        st = self.stats
        st.calls += 1
        st.funcs[f.name] = f.text_hash
        self.stack.append(f.name)
        if len(self.stack) > 400:
            raise Inconclusive("call depth")
        if f.simple_const is not None:
            self.stack.pop()
            return self.const_value(f.simple_const, f)
        locs = [None] * f.nlocals
        for i, a in enumerate(args):
            locs[i + 1] = a
        blocks = f.blocks
        bb = 0
        ev_op = self.eval_operand
        while True:
            blk = blocks[bb]
            for s in blk.stmts:
                st.stmts += 1
                k = s[0]
                if k == "assign":
                    v = self.eval_rvalue(s[2], locs, f, s[1])
                    p = s[1]
                    if not p.proj:
                        locs[p.local] = v
                    else:
                        lst, idx = self.place_slot(p, locs)
                        lst[idx] = v
                elif k == "setdisc":
                    lst, idx = self.place_slot(s[1], locs)
                    lst[idx].variant = s[2]
                elif k == "unparsed":
                    raise Unmodelled("unparsed MIR statement: %s (%s)" % (s[1], s[2]))
            st.stmts += 1
            if st.stmts > self.max_steps:
                raise Inconclusive("step budget exceeded")
            t = blk.term
            k = t[0]
            if k == "goto":
                bb = t[1]
            elif k == "switch":
                bb = self.do_switch(ev_op(t[1], locs), t[2], t[3])
            elif k == "call":
                argv = [ev_op(a, locs) for a in t[3]]
                if t[2][0] == "path":
                    r = self.call_path(t[2][1], argv, f)
                else:
                    r = self.call_value(ev_op(t[2][1], locs), argv)
                if t[4] is None:
                    raise Inconclusive("diverging call returned: %s" % (t[2],))
                p = t[1]
                if p is not None:
                    if not p.proj:
                        locs[p.local] = r
                    else:
                        lst, idx = self.place_slot(p, locs)
                        lst[idx] = r
                bb = t[4]
            elif k == "return":
                self.stack.pop()
                return locs[0]
            elif k == "drop":
                p = t[1]
                v = locs[p.local] if not p.proj else self.read_place(p, locs)
                self.drop_value(v)
                bb = t[2]
            elif k == "assert":
                c = ev_op(t[1], locs)
                ok = self.decide(c if t[2] else self.b_not(c))
                if not ok:
                    raise PanicPath("assertion failed: " + t[3], "overflow" if "overflow" in t[3] else "assert")
                bb = t[4]
            elif k == "unreachable":
                raise Inconclusive("reached `unreachable` in %s bb%d" % (f.name, bb))
            elif k == "resume":
                raise Inconclusive("resume")
            else:
                raise Unmodelled("terminator %r" % (t,))

    def b_not(self, c):
        if isinstance(c, bool):
            return not c
        return z3.Not(c)

    def do_switch(self, v, targets, otherwise):
        if isinstance(v, bool):
            v = 1 if v else 0
        if isinstance(v, int):
            for val, bb in targets:
                if val == v or (v < 0 and (val == v % 256 or val == v % (1 << 32) or val == v % (1 << 64) or val == v % (1 << 128))):
                    return bb
            if otherwise is None:
                raise Inconclusive("switch without target for %r" % v)
            return otherwise
        if isinstance(v, z3.BoolRef):
            for val, bb in targets:
                c = z3.Not(v) if val == 0 else v
                if self.decide(c):
                    return bb
            return otherwise
        if is_sym(v):
            for val, bb in targets:
                if self.decide(v == val):
                    return bb
            if otherwise is None:
                raise Inconclusive("symbolic switch fell through")
            return otherwise
        raise Inconclusive("switch on %r" % (v,))

    # ---- places
    def place_slot(self, p, locs):
        lst, idx = locs, p.local
        for pr in p.proj:
            k = pr[0]
            if k == "deref":
                v = lst[idx]
                if type(v) is Ref:
                    lst, idx = v.lst, v.idx
                elif isinstance(v, (BoxObj,)):
                    lst, idx = v.fields, 0
                elif isinstance(v, (SStr, SliceRef)):
                    lst, idx = [v], 0
                elif isinstance(v, GuardObj):
                    lst, idx = v.lock.fields, 0
                else:
                    raise Inconclusive("deref of %r" % (v,))
            elif k == "field":
                v = lst[idx]
                if type(v) is Agg:
                    lst, idx = v.fields, pr[1]
                elif isinstance(v, BoxObj):
                    # Box internals: (box.0: Unique).0: NonNull -> pointer to contents
                    lst, idx = [Agg("box_inner", None, [Ref(v.fields, 0, True)])], 0
                elif v is None:
                    raise Inconclusive("field of uninitialised value")
                elif hasattr(v, "fields"):
                    lst, idx = v.fields, pr[1]
                else:
                    raise Inconclusive("field %d of %r" % (pr[1], v))
            elif k == "downcast":
                pass
            elif k == "index":
                v = lst[idx]
                i = self.concretize(locs[pr[1]], "index")
                lst, idx = self.index_slot(v, i)
            elif k == "constindex":
                v = lst[idx]
                n = self.seq_len(v)
                i = n - pr[1] if pr[2] else pr[1]
                lst, idx = self.index_slot(v, i)
            else:
                raise Unmodelled("projection %r" % (pr,))
        return lst, idx

    def seq_len(self, v):
        if isinstance(v, SliceRef):
            return len(v)
        if type(v) is Agg:
            return len(v.fields)
        if isinstance(v, VecObj):
            return len(v.items)
        raise Inconclusive("len of %r" % (v,))

    def index_slot(self, v, i):
        if isinstance(v, SliceRef):
            if not (0 <= i < len(v)):
                raise PanicPath("index out of bounds: %d of %d" % (i, len(v)), "bounds")
            return v.lst, v.start + i
        if type(v) is Agg:
            if not (0 <= i < len(v.fields)):
                raise PanicPath("index out of bounds", "bounds")
            return v.fields, i
        if isinstance(v, VecObj):
            if not (0 <= i < len(v.items)):
                raise PanicPath("index out of bounds", "bounds")
            return v.items, i
        if isinstance(v, SStr):
            return [v.byte_at(i)], 0
        raise Inconclusive("index into %r" % (v,))

    def read_place(self, p, locs):
        if not p.proj:
            return locs[p.local]
        lst, idx = self.place_slot(p, locs)
        return lst[idx]

    # ---- operands / rvalues
    def eval_operand(self, op, locs):
        k = op[0]
        if k == "move":
            p = op[1]
            if not p.proj:
                return locs[p.local]
            lst, idx = self.place_slot(p, locs)
            return lst[idx]
        if k == "copy":
            p = op[1]
            if not p.proj:
                v = locs[p.local]
            else:
                lst, idx = self.place_slot(p, locs)
                v = lst[idx]
            if type(v) is Agg:
                return copy_value(v)
            return v
        return self.const_value(op[1], None)

    def const_value(self, c, f):
        k = c[0]
        if k == "int":
            return c[1]
        if k == "bool":
            return c[1]
        if k == "str" or k == "bytes":
            return SStr.lit(c[1])
        if k == "unit":
            return unit()
        if k == "char":
            return c[1]
        if k == "named" or k == "path":
            return self.named_const(c[1])
        if k == "alloc":
            return self.alloc_const(c[1])
        if k == "float":
            return Opaque("float", c[1])
        if k == "zst":
            t = c[1].strip()
            m = re.match(r"\{closure@([^}]*?): [0-9:]+\}$", t)
            if m:
                return Agg("{closure@%s}" % m.group(1), None, [])
            m = re.search(r"\{(.*)\}$", t)
            if t.startswith(("fn(", "for<", "unsafe fn(")) and m:
                return FnItem(m.group(1))
            return Agg(t, None, [])
        raise Unmodelled("constant %r" % (c,))

    def alloc_const(self, ty):
        # reference to a static: `&path`
        t = ty.strip()
        if t.startswith("&"):
            name = t[1:].strip()
            if name not in self.statics:
                self.statics[name] = [Opaque("static", name)]
            return Ref(self.statics[name], 0)
        raise Unmodelled("alloc const %s" % ty)

    def named_const(self, path):
        if path in self.const_cache:
            return copy_value(self.const_cache[path])
        f = self.find_fn_by_path(path)
        if f is not None and f.kind in ("const", "static", "promoted"):
            v = self.call_function(f, [])
            self.const_cache[path] = v
            return copy_value(v)
        if f is not None and f.kind == "fn":
            return FnItem(path)
        if "::promoted[" in path:
            base, rest = path.split("::promoted[", 1)
            suffix = ""
            if "::{closure#" in base:
                i = base.index("::{closure#")
                base, suffix = base[:i], base[i:]
            try:
                ent = self.resolve(base, None)
            except Unmodelled:
                ent = None
            if ent is not None and ent[0] == "mir":
                f2 = self.prog.funcs.get(ent[1].name + suffix + "::promoted[" + rest)
                if f2 is not None:
                    v = self.call_function(f2, [])
                    self.const_cache[path] = v
                    return copy_value(v)
            raise Unmodelled("promoted constant %s" % path)
        mm = re.match(r"(?:core::num::<impl )?(u8|u16|u32|u64|u128|usize|i8|i16|i32|i64|i128|isize)>?::(MIN|MAX|BITS)$", path)
        if mm:
            lo, hi = int_range(mm.group(1))
            return {"MIN": lo, "MAX": hi, "BITS": INT_BITS[mm.group(1)]}[mm.group(2)]
        m = self.models.consts.get(self.norm_key(path))
        if m is not None:
            return m(self)
        # unit struct / function item / unknown constant
        return FnItem(path)

    def find_fn_by_path(self, path):
        fs = self.prog.funcs
        if "::<" in path:
            path = strip_turbofish(path)
        if "melda::verif::" in path:
            path = path.replace("melda::verif::", "melda::")
        for c in self.prog.crates:
            f = fs.get(c + "::" + path)
            if f is not None:
                return f
        return fs.get(path)

    def int_ty_of(self, op, f, dest=None):
        if op[0] == "const" and op[1][0] == "int":
            return op[1][2]
        if op[0] in ("copy", "move"):
            p = op[1]
            t = p.ty if p.proj else f.local_types.get(p.local)
            if t in INT_BITS:
                return t
        return None

    def eval_rvalue(self, rv, locs, f, dest):
        k = rv[0]
        if k == "use":
            return self.eval_operand(rv[1], locs)
        if k == "ref":
            p = rv[2]
            if not p.proj:
                return Ref(locs, p.local, rv[1])
            # reborrow of an unsized place: &(*_x) where _x: &str / &[T]
            lst, idx = self.place_slot(p, locs)
            if p.proj[-1][0] == "deref":
                v = lst[idx]
                if isinstance(v, (SStr, SliceRef)):
                    return v
            return Ref(lst, idx, rv[1])
        if k == "agg_adt":
            return self.make_adt(rv, locs)
        if k == "disc":
            v = self.read_place(rv[1], locs)
            return self.discriminant(v)
        if k == "cast":
            return self.do_cast(self.eval_operand(rv[1], locs), rv[2], rv[3], rv[1], f)
        if k == "bin":
            a = self.eval_operand(rv[2], locs)
            b = self.eval_operand(rv[3], locs)
            return self.binop(rv[1], a, b, self.int_ty_of(rv[2], f) or self.int_ty_of(rv[3], f))
        if k == "chkbin":
            a = self.eval_operand(rv[2], locs)
            b = self.eval_operand(rv[3], locs)
            ty = self.int_ty_of(rv[2], f) or self.int_ty_of(rv[3], f)
            if ty is None:
                t = f.local_types.get(dest.local, "") if not dest.proj else ""
                m = re.match(r"\((\w+), bool\)", t)
                ty = m.group(1) if m else "usize"
            return self.checked_binop(rv[1], a, b, ty)
        if k == "agg_tuple":
            return Agg("tuple", None, [self.eval_operand(o, locs) for o in rv[1]])
        if k == "agg_array":
            return Agg("array", None, [self.eval_operand(o, locs) for o in rv[1]])
        if k == "agg_closure":
            return Agg("{closure@%s}" % rv[1], None, [self.eval_operand(o, locs) for (_, o) in rv[2]])
        if k == "un":
            a = self.eval_operand(rv[2], locs)
            op = rv[1]
            if op == "Not":
                if isinstance(a, bool):
                    return not a
                if isinstance(a, z3.BoolRef):
                    return z3.Not(a)
                if isinstance(a, int):
                    ty = self.int_ty_of(rv[2], f) or "usize"
                    return wrap_int(~a, ty)
                raise Unmodelled("Not on symbolic int")
            if op == "Neg":
                return -a
            if op == "PtrMetadata":
                if isinstance(a, SliceRef):
                    return len(a)
                if isinstance(a, SStr):
                    return a.length()
                return unit()
            raise Unmodelled("unop " + op)
        if k == "len":
            v = self.read_place(rv[1], locs)
            return self.seq_len(v)
        if k == "rawptr":
            p = rv[2]
            if not p.proj:
                return Ref(locs, p.local, rv[1])
            lst, idx = self.place_slot(p, locs)
            if p.proj[-1][0] == "deref":
                v = lst[idx]
                if isinstance(v, (SStr, SliceRef)):
                    return v
            return Ref(lst, idx, rv[1])
        if k == "repeat":
            v = self.eval_operand(rv[1], locs)
            n = rv[2].strip()
            m = re.match(r"(?:const )?(\d+)(_usize)?$", n)
            if not m:
                raise Unmodelled("repeat count %s" % n)
            return Agg("array", None, [copy_value(v) for _ in range(int(m.group(1)))])
        if k == "shallowbox":
            return BoxObj(None)
        raise Unmodelled("rvalue %r" % (rv,))

    def discriminant(self, v):
        if type(v) is Agg:
            if v.variant is None:
                return 0
            d = self.prog.enum_discr.get(v.ty)
            if d is not None:
                return d[v.variant]
            if v.ty == "std::cmp::Ordering":
                return v.variant - 1
            return v.variant
        if isinstance(v, SymEnum):
            return v.disc
        raise Inconclusive("discriminant of %r" % (v,))

    def make_adt(self, rv, locs):
        path, fields, shape = rv[1], rv[2], rv[3]
        info = self._adt_info(path)
        vals = [self.eval_operand(o, locs) for (_, o) in fields]
        ty, variant = info
        return Agg(ty, variant, vals)

    def _adt_info(self, path):
        r = self.call_cache.get(("adt", path))
        if r is not None:
            return r
        t = parse_type(path)
        if t.kind != "path":
            raise Unmodelled("aggregate path %s" % path)
        segs = [s[0] for s in t.a]
        variant = None
        ty = "::".join(segs)
        if len(segs) >= 2:
            en = segs[-2]
            vs = self.prog.enums.get(en)
            if vs is not None and segs[-1] in vs:
                variant = vs.index(segs[-1])
                ty = "::".join(segs[:-1])
        ty = self.canon_ty(ty)
        r = (ty, variant)
        self.call_cache[("adt", path)] = r
        return r

    def canon_ty(self, ty):
        """canonical type head: crate-local paths get their crate prefix"""
        if ty in CANON:
            return CANON[ty]
        return ty

    def do_cast(self, v, ty, kind, op, f):
        if kind == "IntToInt":
            ty = ty.strip()
            if isinstance(v, bool):
                v = 1 if v else 0
            if isinstance(v, int):
                return wrap_int(v, ty) if ty in INT_BITS else v
            if isinstance(v, z3.BoolRef):
                return z3.If(v, z3.IntVal(1), z3.IntVal(0))
            src = self.int_ty_of(op, f)
            if src is not None and ty in INT_BITS:
                lo, hi = int_range(src)
                lo2, hi2 = int_range(ty)
                if lo >= lo2 and hi <= hi2:
                    return v
                if self.must(z3.And(v >= lo2, v <= hi2)):
                    return v
                raise Unmodelled("narrowing symbolic cast %s -> %s" % (src, ty))
            self.assumptions.add("symbolic integer cast assumed value-preserving")
            return v
        if kind.startswith("PointerCoercion(Unsize"):
            if type(v) is Ref:
                inner = v.get()
                if type(inner) is Agg and inner.ty == "array":
                    return SliceRef(inner.fields, 0, len(inner.fields))
            return v
        if kind in ("Transmute", "PtrToPtr", "PointerCoercion(MutToConstPointer, Implicit)") or kind.startswith("PointerCoercion"):
            return v
        if kind in ("IntToFloat", "FloatToInt", "FloatToFloat"):
            raise Unmodelled("float cast")
        return v

    def binop(self, op, a, b, ty):
        if op in ("Eq", "Ne"):
            r = self.values_eq(a, b)
            if op == "Ne":
                return (not r) if isinstance(r, bool) else z3.Not(r)
            return r
        if op in ("Lt", "Le", "Gt", "Ge"):
            if isinstance(a, bool):
                a = int(a)
            if isinstance(b, bool):
                b = int(b)
            if op == "Lt":
                return a < b
            if op == "Le":
                return a <= b
            if op == "Gt":
                return a > b
            return a >= b
        if op in ("Add", "Sub", "Mul", "AddUnchecked", "SubUnchecked", "MulUnchecked"):
            r = a + b if op.startswith("Add") else (a - b if op.startswith("Sub") else a * b)
            if isinstance(r, int):
                return wrap_int(r, ty) if ty else r
            return r
        if op in ("Div", "Rem"):
            if isinstance(a, int) and isinstance(b, int):
                if b == 0:
                    raise PanicPath("division by zero", "arith")
                q = abs(a) // abs(b)
                if (a < 0) != (b < 0):
                    q = -q
                return q if op == "Div" else a - q * b
            raise Unmodelled("symbolic div/rem")
        if op in ("BitAnd", "BitOr", "BitXor"):
            if isinstance(a, bool) or isinstance(a, z3.BoolRef) or isinstance(b, z3.BoolRef) or isinstance(b, bool):
                if op == "BitAnd":
                    return self.b_and(a, b)
                if op == "BitOr":
                    return self.b_or(a, b)
                return self.b_xor(a, b)
            if isinstance(a, int) and isinstance(b, int):
                return a & b if op == "BitAnd" else (a | b if op == "BitOr" else a ^ b)
            raise Unmodelled("symbolic bit op")
        if op in ("Shl", "Shr", "ShlUnchecked", "ShrUnchecked"):
            if isinstance(a, int) and isinstance(b, int):
                r = a << b if op.startswith("Shl") else a >> b
                return wrap_int(r, ty) if ty else r
            raise Unmodelled("symbolic shift")
        if op == "Cmp":
            lt = a < b
            eq = a == b
            if isinstance(lt, bool):
                return ordering(-1 if lt else (0 if eq else 1))
            if self.decide(lt):
                return ordering(-1)
            if self.decide(eq):
                return ordering(0)
            return ordering(1)
        raise Unmodelled("binop " + op)

    def b_and(self, a, b):
        if isinstance(a, bool):
            return b if a else False
        if isinstance(b, bool):
            return a if b else False
        return z3.And(a, b)

    def b_or(self, a, b):
        if isinstance(a, bool):
            return True if a else b
        if isinstance(b, bool):
            return True if b else a
        return z3.Or(a, b)

    def b_xor(self, a, b):
        if isinstance(a, bool) and isinstance(b, bool):
            return a != b
        if isinstance(a, bool):
            return z3.Not(b) if a else b
        if isinstance(b, bool):
            return z3.Not(a) if b else a
        return z3.Xor(a, b)

    def values_eq(self, a, b):
        """primitive equality (ints, bools, chars, pointers)"""
        if isinstance(a, (int, bool)) and isinstance(b, (int, bool)):
            return a == b
        if is_sym(a) or is_sym(b):
            if isinstance(a, bool):
                return b if a else z3.Not(b)
            if isinstance(b, bool):
                return a if b else z3.Not(a)
            return a == b
        if type(a) is Ref and type(b) is Ref:
            return a.key() == b.key()
        raise Inconclusive("primitive eq on %r, %r" % (a, b))

    def checked_binop(self, op, a, b, ty):
        lo, hi = int_range(ty)
        if op == "AddWithOverflow":
            r = a + b
        elif op == "SubWithOverflow":
            r = a - b
        else:
            r = a * b
        if isinstance(r, int):
            of = r < lo or r > hi
            return Agg("tuple", None, [wrap_int(r, ty), of])
        of = z3.Or(r < lo, r > hi)
        return Agg("tuple", None, [r, of])

    # ---- drops
    def drop_value(self, v):
        if v is None:
            return
        t = type(v)
        if t is Agg:
            for x in v.fields:
                if x is not None and not isinstance(x, (int, bool)):
                    self.drop_value(x)
        elif t is GuardObj:
            self.release_guard(v)
        elif t is VecObj:
            for x in v.items:
                if x is not None and not isinstance(x, (int, bool)):
                    self.drop_value(x)
        elif t is BoxObj:
            if v.kind == "Box":
                self.drop_value(v.fields[0])
        elif t is IterObj:
            if v.meta and v.meta.get("owned") is not None:
                self.drop_value(v.meta["owned"])

    def release_guard(self, g):
        if not g.live:
            return
        g.live = False
        if g.write:
            g.lock.writers -= 1
        else:
            g.lock.readers -= 1

    # ---- calls
    def norm_key(self, path):
        r = self.call_cache.get(("key", path))
        if r is None:
            t = parse_type(path)
            r = t.head()
            self.call_cache[("key", path)] = r
        return r

    def call_value(self, fv, args):
        """call through a function value (fn item, fn pointer, closure)"""
        if isinstance(fv, FnItem):
            return self.call_path(fv.path, args, None)
        if type(fv) is Agg and fv.ty.startswith("{closure@"):
            return self.call_closure(fv, args)
        if type(fv) is Ref:
            return self.call_value(fv.get(), args)
        raise Unmodelled("call through %r" % (fv,))

    def call_closure(self, clo, args, by_ref_holder=None):
        """clo: closure Agg (or Ref to it); args: list of argument values (already untupled)"""
        if type(clo) is Ref:
            holder = clo
            c = clo.get()
        else:
            c = clo
            holder = None
        if isinstance(c, FnItem):
            return self.call_path(c.path, args, None)
        if not (type(c) is Agg and c.ty.startswith("{closure@")):
            raise Unmodelled("call_closure on %r" % (c,))
        loc = c.ty[len("{closure@"):-1]
        f = self.prog.closures.get(loc)
        if f is None:
            raise Unmodelled("closure body not found: %s" % loc)
        t1 = f.local_types.get(1, "")
        if t1.startswith("&"):
            if holder is None:
                holder = new_ref(c, True)
            a0 = holder
        else:
            a0 = c
        return self.call_function(f, [a0] + list(args))

    def call_path(self, path, args, caller):
        ent = self.call_cache.get(path)
        if ent is None:
            ent = self.resolve(path, caller)
            self.call_cache[path] = ent
        kind = ent[0]
        if kind == "mir":
            return self.call_function(ent[1], args)
        if kind == "model":
            self.stats.calls += 1
            return ent[1](self, ent[2], args)
        if kind == "dyn":
            return self.dyn_dispatch(ent[1], ent[2], ent[3], args, path)
        raise Unmodelled("call %s" % path)

    def resolve(self, path, caller):
        t = parse_type(path)
        key = t.head()
        models = self.models
        # 1. explicit model override
        m = models.exact.get(key)
        if m is not None:
            return ("model", m, t)
        # 2. MIR-defined function
        if t.kind == "path":
            plain = "::".join(s[0] for s in t.a)
            f = self.find_fn_by_path(plain)
            if f is not None and f.kind == "fn":
                return ("mir", f)
            segs = [s[0] for s in t.a]
            if len(segs) >= 2:
                f = self.prog.inherent.get((segs[-2], segs[-1]))
                if f is not None and self._is_crate_path(segs):
                    return ("mir", f)
        elif t.kind == "qpath" and t.b is not None and len(t.c) == 1:
            trait = t.b.a[-1][0]
            method = t.c[0][0]
            selfty = t.a.strip_refs() if t.a.kind in ("ref",) and False else t.a
            sh = selfty.head()
            slast = Program._last(sh) if selfty.kind == "path" else sh
            f = self.prog.traitimpl.get((trait, slast, method))
            if f is not None:
                return ("mir", f)
            if selfty.kind == "dyn" or (selfty.kind == "path" and len(selfty.a) == 1 and len(selfty.a[0][0]) <= 2 and selfty.a[0][0][0].isupper() and not selfty.a[0][1]):
                # trait object or generic type parameter: dispatch on the runtime type of arg 0
                if any(k[0] == trait and k[2] == method for k in self.prog.traitimpl):
                    return ("dyn", trait, method, t)
        # 3. generic models
        if t.kind == "qpath" and t.b is not None:
            g = "<_ as %s>::%s" % (t.b.head(), "::".join(s[0] for s in t.c))
            m = models.exact.get(g)
            if m is not None:
                return ("model", m, t)
        m = models.lookup_pattern(key)
        if m is not None:
            return ("model", m, t)
        # the same inherent method may be printed with the core:: or the std:: (alloc) path
        for a_, b_ in (("std::slice::<impl [_]>::", "core::slice::<impl [_]>::"), ("core::slice::<impl [_]>::", "std::slice::<impl [_]>::"),
                       ("std::str::<impl str>::", "core::str::<impl str>::"), ("core::str::<impl str>::", "std::str::<impl str>::"),
                       ("std::slice::<impl [_]>::", "std::vec::Vec::"), ("core::slice::<impl [_]>::", "std::vec::Vec::")):
            if key.startswith(a_):
                m = models.exact.get(b_ + key[len(a_):])
                if m is not None:
                    return ("model", m, t)
        raise Unmodelled("no model for callee %s   [key %s]" % (path, key))

    def _is_crate_path(self, segs):
        return segs[0] in self.prog.crates or not segs[0] in ("std", "core", "alloc")

    def dyn_dispatch(self, trait, method, t, args, path):
        """receiver is &dyn Trait / &T with T a type parameter: dispatch on the runtime type"""
        w = args[0]
        f = None
        tyname = None
        for _ in range(8):
            inner = w.get() if type(w) is Ref else w
            if type(inner) is Agg:
                tyname = Program._last(inner.ty)
                f = self.prog.traitimpl.get((trait, tyname, method))
                break
            if isinstance(inner, BoxObj):
                if inner.kind == "Arc":
                    tyname = "Arc"
                    f = self.prog.traitimpl.get((trait, "Arc", method))
                    if f is not None:
                        break
                w = Ref(inner.fields, 0)
                continue
            if isinstance(inner, GuardObj):
                w = Ref(inner.lock.fields, 0)
                continue
            if type(inner) is Ref:
                w = inner
                continue
            break
        if f is None:
            mk = "<_ as %s>::%s" % (t.b.head(), method)
            m = self.models.exact.get(mk)
            if m is not None:
                return m(self, t, args)
            raise Unmodelled("dyn dispatch %s on %r" % (path, tyname))
        recv = w if type(w) is Ref else new_ref(w)
        return self.call_function(f, [recv] + list(args[1:]))


def strip_turbofish(path):
    out = []
    i = 0
    n = len(path)
    while i < n:
        if path.startswith("::<", i) and not path.startswith("::<impl", i):
            d = 0
            j = i + 2
            while j < n:
                c = path[j]
                if c == "<":
                    d += 1
                elif c == ">" and path[j - 1] != "-":
                    d -= 1
                    if d == 0:
                        break
                j += 1
            i = j + 1
        else:
            out.append(path[i])
            i += 1
    return "".join(out)


class SymEnum:
    """enum value whose discriminant is symbolic (rare)"""
    def __init__(self, disc):
        self.disc = disc


CANON = {}


def z3str_to_py(v):
    """z3 string value -> python str of byte chars"""
    s = v.as_string()
    # z3 escapes non printable as \u{..}
    out = []
    i = 0
    n = len(s)
    while i < n:
        if s.startswith("\\u{", i):
            e = s.index("}", i)
            out.append(chr(int(s[i + 3:e], 16)))
            i = e + 1
        elif s.startswith("\\x", i) and i + 3 < n + 1 and re.match(r"[0-9a-fA-F]{2}", s[i + 2:i + 4] or ""):
            out.append(chr(int(s[i + 2:i + 4], 16)))
            i += 4
        else:
            out.append(s[i])
            i += 1
    return "".join(out)
