"""Per-property check driver: symbolic exploration of the harness jobs, native replay, evidence."""
import os
import re
import sys
import json
import time
import random
import hashlib
import subprocess
import tempfile
import shutil

from . import engine

VERIF = engine.VERIF
NATIVE_TARGET = os.path.join(engine.CACHE, "target-native")


def log(*a):
    print(*a, flush=True)


def build_native(profile="release"):
    env = engine.cargo_env()
    env["CARGO_TARGET_DIR"] = NATIVE_TARGET
    cmd = ["cargo", "build", "--offline", "--bin", "replay"] + (["--release"] if profile == "release" else [])
    p = subprocess.run(cmd, cwd=engine.HARNESS, env=env, stdout=subprocess.PIPE, stderr=subprocess.STDOUT)
    if p.returncode != 0:
        raise RuntimeError("native harness build failed:\n" + p.stdout.decode()[-3000:])
    return os.path.join(NATIVE_TARGET, "release" if profile == "release" else "debug", "replay")


def native_run(binary, harness, params, inputs, env_extra=None, timeout=20):
    with tempfile.NamedTemporaryFile("w", suffix=".json", delete=False, dir="/dev/shm" if os.path.isdir("/dev/shm") else None) as fh:
        json.dump({"params": list(params), "inputs": inputs}, fh)
        path = fh.name
    scratch = None
    try:
        env = dict(os.environ)
        env["RUST_BACKTRACE"] = "0"
        scratch = tempfile.mkdtemp(prefix="verif-scratch-", dir="/dev/shm" if os.path.isdir("/dev/shm") else None)
        env["VERIF_SCRATCH"] = os.path.join(scratch, "d")
        if env_extra:
            env.update(env_extra)
        try:
            p = subprocess.run([binary, harness, path], stdout=subprocess.PIPE, stderr=subprocess.PIPE, timeout=timeout, env=env)
        except subprocess.TimeoutExpired:
            return {"code": "timeout", "obs": None, "stderr": "timeout after %ss (operation did not return)" % timeout}
        obs = None
        for line in p.stdout.decode(errors="replace").split("\n"):
            if line.startswith("OBS "):
                obs = json.loads(line[4:])
        return {"code": p.returncode, "obs": obs, "stderr": p.stderr.decode(errors="replace")[-1500:]}
    finally:
        os.unlink(path)
        if scratch:
            shutil.rmtree(scratch, ignore_errors=True)


def load_known_findings():
    p = os.path.join(VERIF, "known_findings.json")
    if not os.path.exists(p):
        return []
    return json.load(open(p)).get("findings", [])


def finding_matches(f, prop, harness, rec):
    if f.get("status") != "open" or f.get("property") != prop:
        return False
    m = f.get("match", {})
    if "harness" in m and not re.search(m["harness"], harness):
        return False
    if "msg" in m and not re.search(m["msg"], rec.get("msg", "")):
        return False
    if "where" in m and not any(re.search(m["where"], w) for w in rec.get("where", [])):
        return False
    if "kind" in m and m["kind"] != rec.get("kind"):
        return False
    return True


class Job:
    def __init__(self, harness, params=(), opts=None, budget_s=600, label=None, expect_reach=True, validate=200,
                 native_repeats=1, native_timeout=20):
        self.harness = harness
        self.params = list(params)
        self.opts = opts or {}
        self.budget_s = budget_s
        self.label = label or "%s%r" % (harness, tuple(params))
        self.expect_reach = expect_reach
        self.validate = validate
        self.native_repeats = native_repeats
        self.native_timeout = native_timeout


def run_check(prop, tier, jobs, level_note, assumptions, bounds, seed=None, extra_cov=None):
    """Runs the jobs; returns exit code. Writes evidence/<prop>.json."""
    t0 = time.time()
    seed = int(os.environ.get("VERIF_SEED", "0")) if seed is None else seed
    rnd = random.Random(seed)
    os.makedirs(os.path.join(VERIF, "evidence"), exist_ok=True)
    os.makedirs(os.path.join(VERIF, "replays", prop), exist_ok=True)
    try:
        mirs = engine.dump_mir(log)
        prog = engine.load_program(mirs)
        binary = build_native("release")
        binary_dev = None
    except RuntimeError as e:
        log("INCONCLUSIVE: build failed: %s" % e)
        return 2
    known = load_known_findings()
    totals = {"paths": 0, "ok": 0, "panic": 0, "pruned": 0, "stmts": 0, "queries": 0, "solver_time": 0.0, "forks": 0}
    funcs = {}
    all_assumptions = set(assumptions)
    inconclusive = []
    violations = []
    known_hits = []
    validated = 0
    samples = []
    job_summ = []
    for job in jobs:
        if violations and os.environ.get("VERIF_ALL_JOBS") != "1":
            # a reproduced violation settles the verdict; the remaining jobs are skipped
            log("job %s: skipped (a violation was already reproduced)" % job.label)
            continue
        budget = min(job.budget_s, 900) if tier == "quick" else job.budget_s
        recs, dt = engine.run_harness(prog, job.harness, job.params, job.opts, budget_s=budget)
        s = engine.summarize(recs)
        for k in ("paths", "ok", "panic", "pruned", "stmts", "queries", "solver_time", "forks"):
            totals[k] += s[k]
        funcs.update(s["funcs"])
        all_assumptions.update(s["assumptions"])
        log("job %s: %d paths (%d ok, %d panic, %d pruned, %d unmodelled, %d inconclusive, %d internal) %d stmts %d queries %.1fs solver, %.1fs wall"
            % (job.label, s["paths"], s["ok"], s["panic"], s["pruned"], s["unmodelled"], s["inconclusive"], s["internal_error"],
               s["stmts"], s["queries"], s["solver_time"], dt))
        job_summ.append({"job": job.label, "paths": s["paths"], "ok": s["ok"], "panic": s["panic"], "pruned": s["pruned"], "wall_s": round(dt, 2)})
        bad = [r for r in recs if r["status"] in ("unmodelled", "inconclusive", "internal_error")]
        if bad:
            seen = set()
            for r in bad:
                key = r.get("what") or r.get("why") or r.get("err")
                if key in seen:
                    continue
                seen.add(key)
                inconclusive.append((job.label, r))
                log("  INCONCLUSIVE path: %s %s" % (r["status"], json.dumps({k: v for k, v in r.items() if k not in ("decisions", "inputs", "tb", "harness", "reached")})[:500] + (" | " + r["tb"][-300:].replace("\n", " / ") if r.get("tb") else "")))
        if job.expect_reach and s["reached"] == 0 and not bad and s["panic"] == 0:
            inconclusive.append((job.label, {"status": "vacuous", "why": "no path reached the end of the harness"}))
            log("  INCONCLUSIVE: vacuous harness (no path reached sym::reach)")
        env_extra = {k: str(v) for k, v in (job.opts.get("env") or {}).items()}
        # panics: replay natively before reporting
        panics = [r for r in recs if r["status"] == "panic"]
        seen_roles = {}
        for r in panics:
            role = (r.get("kind"), re.sub(r"\d+", "N", r.get("msg", ""))[:200], tuple(r.get("where", [])[-2:]))
            if role in seen_roles and seen_roles[role] >= 3:
                continue
            seen_roles[role] = seen_roles.get(role, 0) + 1
            reproduced = False
            res = None
            cands = [r.get("inputs", [])] + list(r.get("alt_inputs", []))
            for cand in cands:
                for attempt in range(max(1, job.native_repeats)):
                    res = native_run(binary, job.harness, job.params, cand, env_extra, timeout=job.native_timeout)
                    if res["code"] == 101 or (res["code"] == "timeout" and r.get("kind") == "deadlock"):
                        reproduced = True
                        r["inputs"] = cand
                        break
                if reproduced:
                    break
            if reproduced and r.get("kind") != "deadlock":
                # also in the dev profile (the profile whose arithmetic checks the MIR reflects)
                if binary_dev is None:
                    try:
                        binary_dev = build_native("dev")
                    except RuntimeError:
                        binary_dev = False
                if binary_dev:
                    res_dev = native_run(binary_dev, job.harness, job.params, r.get("inputs", []), env_extra, timeout=job.native_timeout)
                    r["native_dev"] = res_dev["code"]
            kf = [f for f in known if finding_matches(f, prop, job.harness, r)]
            entry = {"job": job.label, "harness": job.harness, "params": job.params, "inputs": r.get("inputs"), "msg": r.get("msg"),
                     "kind": r.get("kind"), "where": r.get("where"), "decisions": r.get("decisions"),
                     "native": res, "reproduced": reproduced, "native_dev": r.get("native_dev")}
            if not reproduced:
                inconclusive.append((job.label, {"status": "non-reproducing counterexample", "msg": r.get("msg"), "native": res}))
                log("  INCONCLUSIVE: counterexample did not reproduce natively: %s | native=%s" % (r.get("msg"), json.dumps(res)[:400]))
                continue
            if kf:
                known_hits.append((kf[0], entry))
            else:
                violations.append(entry)
        # validate a sample of ok paths against the native build
        oks = [r for r in recs if r["status"] == "ok" and "inputs" in r]
        rnd.shuffle(oks)
        for r in oks[:job.validate]:
            res = native_run(binary, job.harness, job.params, r["inputs"], env_extra, timeout=job.native_timeout)
            exp = [o[1] for o in r.get("observations", [])]
            got = res["obs"]["obs"] if res["obs"] else None
            if res["code"] == 0 and (got == exp or r.get("hash_dependent")):
                validated += 1
            elif res["code"] == 3 and job.opts.get("allow_native_assume_fail"):
                pass
            else:
                if job.native_repeats > 1:
                    okk = False
                    for _ in range(job.native_repeats):
                        res2 = native_run(binary, job.harness, job.params, r["inputs"], env_extra, timeout=job.native_timeout)
                        if res2["code"] == 0 and res2["obs"] and res2["obs"]["obs"] == exp:
                            okk = True
                            break
                    if okk:
                        validated += 1
                        continue
                inconclusive.append((job.label, {"status": "native disagreement", "inputs": r["inputs"], "expected_obs": exp, "native": res}))
                log("  INCONCLUSIVE: native run disagrees with symbolic path: inputs=%s expected=%s native=%s"
                    % (json.dumps(r["inputs"])[:300], json.dumps(exp)[:300], json.dumps(res)[:500]))
        for r in sorted(oks[:40], key=lambda r: -len(r["decisions"]))[:2]:
            samples.append({"job": job.label, "paths_in_job": s["paths"], "inputs": r["inputs"],
                            "observations": [o[1] for o in r.get("observations", [])][:12],
                            "path_decisions": r["decisions"][:120]})
    # report
    code = 0
    for f, e in known_hits:
        pass
    printed = set()
    for f, e in known_hits:
        if f["id"] not in printed:
            printed.add(f["id"])
            log("KNOWN-FINDING: property=%s %s" % (prop, f.get("what", f["id"])))
    if violations:
        code = 1
        for i, v in enumerate(violations[:20]):
            path = os.path.join(VERIF, "replays", prop, "%s-%d.json" % (tier, i))
            json.dump(v, open(path, "w"), indent=1)
            log("VIOLATION property=%s replay=%s" % (prop, path))
            log("  %s: %s (inputs %s)" % (v["job"], v["msg"], json.dumps(v["inputs"])[:300]))
    elif inconclusive:
        code = 2
        log("INCONCLUSIVE: %d issue(s); no verdict" % len(inconclusive))
    wall = time.time() - t0
    cov = {
        "states": totals["paths"],
        "transitions": totals["stmts"],
        "traces_validated_against_impl": validated,
        "samples": sorted(samples, key=lambda x: -x.get("paths_in_job", 0))[:8] or [{"note": "no completed path"}],
        "exhaustive": code == 0,
        "explanation": "states = symbolic paths explored to completion (each stands for all inputs satisfying its path condition); "
                       "transitions = MIR statements/terminators executed symbolically; traces_validated = paths whose z3 model was "
                       "re-run on the natively compiled harness + crate with identical observations",
        "paths_ok": totals["ok"], "paths_panic": totals["panic"], "paths_pruned_by_assume": totals["pruned"],
        "solver_queries": totals["queries"], "solver_time_s": round(totals["solver_time"], 2), "forks": totals["forks"],
        "functions_encoded": {k: funcs[k] for k in sorted(funcs) if not k.startswith("verif_harness::")},
        "harness_functions": sorted(k for k in funcs if k.startswith("verif_harness::")),
        "bounds": bounds,
        "jobs": job_summ,
        "engine": "mirsym (MIR text -> symbolic execution, z3 %s)" % _z3v(),
        "mir_source": "cargo +nightly rustc -Zunpretty=mir on %s working tree at run time" % engine.REPO,
        "inconclusive": [{"job": j, "detail": {k: v for k, v in r.items() if k not in ("decisions", "inputs", "tb")}} for j, r in inconclusive[:10]],
        "known_findings_hit": sorted(printed),
    }
    if extra_cov:
        cov.update(extra_cov)
    ev = {"property_id": prop, "tier": tier, "seed": seed, "level": "model_checking", "coverage": cov,
          "assumptions": sorted(all_assumptions), "wall_s": round(wall, 2), "violations": len(violations)}
    if totals["paths"] == 0 or totals["stmts"] == 0:
        cov["states"] = max(1, cov["states"])
        cov["transitions"] = max(1, cov["transitions"])
    json.dump(ev, open(os.path.join(VERIF, "evidence", prop + ".json"), "w"), indent=1)
    log("%s %s: exit %d in %.1fs (%d paths, %d validated natively)" % (prop, tier, code, wall, totals["paths"], validated))
    return code


def _z3v():
    import z3
    return z3.get_version_string()
