"""Models: str / String / fmt / number parsing."""
import z3
from .models import *
from .values import *
from .sstr import SStr
from .interp import Inconclusive, Program


def int_to_sstr(ctx, v):
    if isinstance(v, bool):
        return SStr.lit("true" if v else "false")
    if isinstance(v, int):
        return SStr.lit(str(v))
    # symbolic integer: fork on sign and on the number of decimal digits; one fresh variable per digit,
    # tied to the value by a linear equation (no div/mod)
    cache = ctx.__dict__.setdefault("_int_render", {})
    key = v.get_id()
    if key in cache:
        return cache[key]
    neg = ctx.decide(v < 0)
    a = -v if neg else v
    nd = 1
    while nd < 40 and not ctx.decide(a < 10 ** nd):
        nd += 1
    digits = []
    total = 0
    for k in range(nd - 1, -1, -1):
        d = ctx.fresh("dig")
        ctx.add(z3.And(d >= (1 if (k == nd - 1 and nd > 1) else 0), d <= 9))
        total = total + d * (10 ** k)
        c = ctx.fresh("digc")
        ctx.add(c == d + 48)
        ctx.char_cls[c.get_id()] = "digit"
        digits.append(c)
    ctx.add(a == total)
    r = SStr.of_chars(([45] if neg else []) + digits)
    cache[key] = r
    ctx.__dict__.setdefault("_int_parse", {})[tuple(c.get_id() for c in digits)] = a
    return r


# ------------------------------------------------------------------ fmt
@model("core::fmt::rt::Argument::new_display", "core::fmt::rt::Argument::new_debug", "core::fmt::rt::Argument::new_lower_hex")
def m_fmt_arg(ctx, cty, a):
    kind = cty.a[-1][0][4:]
    return Agg("fmt::Argument", None, [kind, a[0]])


@model("std::fmt::Arguments::new", "std::fmt::Arguments::new_v1", "std::fmt::Arguments::new_const")
def m_fmt_arguments_new(ctx, cty, a):
    tmpl = as_sstr(a[0]).concrete()
    args = seq_items(a[1]) if len(a) > 1 else []
    return Agg("fmt::Arguments", None, [tmpl, list(args)])


@model("std::fmt::Arguments::from_str")
def m_fmt_arguments_from_str(ctx, cty, a):
    return Agg("fmt::Arguments", None, [None, as_sstr(a[0])])


def render_display(ctx, v, kind="display"):
    v = deref(v)
    if isinstance(v, (SStr, StringObj)):
        if kind == "debug":
            return SStr(('"',)).concat(as_sstr(v)).concat(SStr(('"',)))
        return as_sstr(v)
    if isinstance(v, (int, bool)) or is_sym(v):
        return int_to_sstr(ctx, v)
    if isinstance(v, ErrObj):
        m = v.msg
        return m if isinstance(m, SStr) else SStr.lit(str(m))
    if type(v) is Agg:
        if v.ty == "fmt::Arguments":
            return render_arguments(ctx, v)
        tn = Program._last(v.ty)
        f = ctx.prog.traitimpl.get(("Display" if kind == "display" else "Debug", tn, "fmt"))
        if f is not None and kind == "display":
            fm = Agg("fmt::Formatter", None, [SStr()])
            ctx.call_function(f, [new_ref(v), new_ref(fm, True)])
            return fm.fields[0]
    if kind == "debug":
        ctx.assumptions.add("Debug output is opaque (only used in error messages)")
        return SStr.lit("<?>")
    raise Inconclusive("Display of %r" % (v,))


def render_arguments(ctx, fa):
    tmpl, args = fa.fields
    if tmpl is None:
        return args
    out = SStr()
    i = 0
    ai = 0
    n = len(tmpl)
    while i < n:
        b = ord(tmpl[i])
        i += 1
        if b == 0:
            break
        if b < 0x80:
            out = out.concat(SStr.lit(tmpl[i:i + b]))
            i += b
        elif b == 0x80:
            ln = ord(tmpl[i]) | (ord(tmpl[i + 1]) << 8)
            i += 2
            out = out.concat(SStr.lit(tmpl[i:i + ln]))
            i += ln
        elif b == 0xC0:
            arg = args[ai]
            ai += 1
            out = out.concat(render_display(ctx, arg.fields[1], arg.fields[0]))
        else:
            # placeholder with options: flags(b0)=4 bytes, width(b1)=2, precision(b2)=2, arg index(b3)=2
            if b & 1:
                i += 4
            if b & 2:
                i += 2
            if b & 4:
                i += 2
            if b & 8:
                ai = ord(tmpl[i]) | (ord(tmpl[i + 1]) << 8)
                i += 2
            arg = args[ai]
            ai += 1
            if arg.fields[0] == "debug":
                out = out.concat(render_display(ctx, arg.fields[1], "debug"))
            else:
                raise Inconclusive("format placeholder with options 0x%x" % b)
    return out


@model("std::fmt::format", "alloc::fmt::format", "std::fmt::format::format_inner")
def m_format(ctx, cty, a):
    return StringObj(render_arguments(ctx, a[0]))


@model("std::fmt::Formatter::write_fmt", "<std::fmt::Formatter as std::fmt::Write>::write_fmt")
def m_formatter_write_fmt(ctx, cty, a):
    fm = deref(a[0])
    fm.fields[0] = fm.fields[0].concat(render_arguments(ctx, a[1]))
    return res_ok(unit())


@model("std::fmt::Formatter::write_str", "<std::fmt::Formatter as std::fmt::Write>::write_str", "std::fmt::Formatter::pad")
def m_formatter_write_str(ctx, cty, a):
    fm = deref(a[0])
    fm.fields[0] = fm.fields[0].concat(as_sstr(a[1]))
    return res_ok(unit())


@model_re(r"std::fmt::Formatter::debug_.*")
def m_formatter_debug(ctx, cty, a):
    fm = deref(a[0])
    fm.fields[0] = fm.fields[0].concat(SStr.lit("<?>"))
    ctx.assumptions.add("Debug output is opaque (only used in error messages)")
    return res_ok(unit())


@model("<_ as std::fmt::Display>::fmt", "<_ as std::fmt::Debug>::fmt")
def m_display_fmt(ctx, cty, a):
    fm = deref(a[1])
    kind = "display" if cty.b.head().endswith("Display") else "debug"
    fm.fields[0] = fm.fields[0].concat(render_display(ctx, a[0], kind))
    return res_ok(unit())


@model("<_ as std::string::ToString>::to_string")
def m_to_string(ctx, cty, a):
    return StringObj(render_display(ctx, a[0]))


# ------------------------------------------------------------------ String
@model("std::string::String::new")
def m_string_new(ctx, cty, a):
    return StringObj(SStr())


@model("std::string::String::with_capacity")
def m_string_with_cap(ctx, cty, a):
    return StringObj(SStr())


@model("std::string::String::from_utf8")
def m_string_from_utf8(ctx, cty, a):
    return res_ok(StringObj(as_sstr(a[0])))


@model("std::string::String::from_utf8_lossy")
def m_string_from_utf8_lossy(ctx, cty, a):
    return Agg("std::borrow::Cow", 0, [as_sstr(a[0])])


@model("std::str::from_utf8", "core::str::from_utf8")
def m_str_from_utf8(ctx, cty, a):
    s = as_sstr(a[0])
    if s.is_concrete():
        try:
            s.concrete().encode("latin-1").decode("utf-8")
        except UnicodeDecodeError:
            return res_err(ErrObj(SStr.lit("invalid utf-8")))
    else:
        ctx.assumptions.add("symbolic byte strings handed to from_utf8 are valid UTF-8 (symbolic parts are ASCII)")
    return res_ok(s)


@model("std::string::String::as_str", "std::string::String::as_bytes", "core::str::<impl str>::as_bytes",
       "std::string::String::as_mut_str", "core::str::<impl str>::as_str", "std::string::String::into_bytes",
       "std::string::String::into_boxed_str")
def m_string_as_str(ctx, cty, a):
    v = deref(a[0])
    if cty.a[-1][0] == "into_bytes":
        return StringObj(as_sstr(v))
    return as_sstr(v)


@model("std::string::String::len", "core::str::<impl str>::len")
def m_str_len(ctx, cty, a):
    return as_sstr(a[0]).length()


@model("std::string::String::is_empty", "core::str::<impl str>::is_empty")
def m_str_is_empty(ctx, cty, a):
    n = as_sstr(a[0]).length()
    return n == 0


@model("std::string::String::push_str")
def m_push_str(ctx, cty, a):
    s = deref1(a[0])
    s.s = s.s.concat(as_sstr(a[1]))
    return unit()


@model("std::string::String::push")
def m_push_char(ctx, cty, a):
    s = deref1(a[0])
    c = a[1]
    if not isinstance(c, int):
        raise Inconclusive("push symbolic char")
    s.s = s.s.concat(SStr.from_utf8_text(chr(c)))
    return unit()


@model("std::string::String::clear")
def m_string_clear(ctx, cty, a):
    deref1(a[0]).s = SStr()
    return unit()


@model("<std::string::String as std::ops::Add>::add")
def m_string_add(ctx, cty, a):
    s = a[0]
    return StringObj(as_sstr(s).concat(as_sstr(a[1])))


@model("<std::string::String as std::ops::AddAssign>::add_assign")
def m_string_add_assign(ctx, cty, a):
    s = deref1(a[0])
    s.s = s.s.concat(as_sstr(a[1]))
    return unit()


@model("core::str::<impl str>::starts_with")
def m_starts_with(ctx, cty, a):
    return as_sstr(a[0]).startswith(pat_sstr(a[1]))


@model("core::str::<impl str>::ends_with")
def m_ends_with(ctx, cty, a):
    return as_sstr(a[0]).endswith(pat_sstr(a[1]))


def pat_sstr(p):
    p = deref(p)
    if isinstance(p, int):
        return SStr.from_utf8_text(chr(p))
    return as_sstr(p)


@model("core::str::<impl str>::contains")
def m_str_contains(ctx, cty, a):
    s, p = as_sstr(a[0]), pat_sstr(a[1])
    if s.is_concrete() and p.is_concrete():
        return p.concrete() in s.concrete()
    n, k = len(s), len(p)
    from .models import b_or
    return b_or(*[s.slice(i, i + k).eq(p) for i in range(0, n - k + 1)])


@model("core::str::<impl str>::strip_prefix")
def m_strip_prefix(ctx, cty, a):
    s, p = as_sstr(a[0]), pat_sstr(a[1])
    if ctx.decide(s.startswith(p)):
        return opt_some(s.slice(len(p), len(s)))
    return opt_none()


@model("core::str::<impl str>::strip_suffix")
def m_strip_suffix(ctx, cty, a):
    s, p = as_sstr(a[0]), pat_sstr(a[1])
    if ctx.decide(s.endswith(p)):
        return opt_some(s.slice(0, len(s) - len(p)))
    return opt_none()


@model("core::str::<impl str>::trim_end_matches")
def m_trim_end_matches(ctx, cty, a):
    s, p = as_sstr(a[0]), pat_sstr(a[1])
    k = len(p)
    n = len(s)
    while k and n - k >= 0 and ctx.decide(s.slice(n - k, n).eq(p)):
        n -= k
    return s.slice(0, n)


@model("core::str::<impl str>::trim", "core::str::<impl str>::trim_end", "core::str::<impl str>::trim_start")
def m_trim(ctx, cty, a):
    s = as_sstr(a[0])
    if s.is_concrete():
        t = s.text()
        k = cty.a[-1][0]
        t = t.strip() if k == "trim" else (t.rstrip() if k == "trim_end" else t.lstrip())
        return SStr.from_utf8_text(t)
    raise Inconclusive("trim on symbolic")


@model("core::str::<impl str>::to_string", "core::str::<impl str>::to_owned", "std::str::<impl str>::to_owned")
def m_str_to_string(ctx, cty, a):
    return StringObj(as_sstr(a[0]))


@model("core::str::<impl str>::parse")
def m_str_parse(ctx, cty, a):
    s = as_sstr(a[0])
    t = generic_arg(cty, 0)
    th = t.head() if t is not None else "?"
    if th not in INT_BITS:
        raise Inconclusive("parse::<%s>" % th)
    lo, hi = int_range(th)
    if s.is_concrete():
        c = s.concrete()
        body = c[1:] if c[:1] in "+-" and (th[0] == "i" or c[:1] == "+") else c
        if not body or not all("0" <= ch <= "9" for ch in body):
            return res_err(ErrObj(SStr.lit("invalid digit found in string")))
        v = int(c)
        if v < lo or v > hi:
            return res_err(ErrObj(SStr.lit("number too large to fit in target type")))
        return res_ok(v)
    chars = list(s.chars)
    if not chars:
        return res_err(ErrObj(SStr.lit("cannot parse integer from empty string")))
    neg = False
    c0 = chars[0]
    if type(c0) is int:
        if c0 == 43 or (c0 == 45 and th[0] == "i"):
            neg = c0 == 45
            chars = chars[1:]
            if not chars:
                return res_err(ErrObj(SStr.lit("invalid digit found in string")))
    elif not ctx.char_in(c0, "digit"):
        c0c = ctx.concretize(c0, "sign char")
        if c0c == 43 or (c0c == 45 and th[0] == "i"):
            neg = c0c == 45
            chars = chars[1:]
            if not chars:
                return res_err(ErrObj(SStr.lit("invalid digit found in string")))
        else:
            return res_err(ErrObj(SStr.lit("invalid digit found in string")))
    v = None
    if chars and all(type(c) is not int for c in chars):
        v = ctx.__dict__.get("_int_parse", {}).get(tuple(c.get_id() for c in chars))
    if v is None:
        v = 0
        for c in chars:
            if not ctx.char_in(c, "digit"):
                return res_err(ErrObj(SStr.lit("invalid digit found in string")))
            v = v * 10 + (c - 48)
    if neg:
        v = -v
    if isinstance(v, int):
        if v < lo or v > hi:
            return res_err(ErrObj(SStr.lit("number out of range")))
        return res_ok(v)
    if ctx.decide(z3.Or(v > hi, v < lo)):
        return res_err(ErrObj(SStr.lit("number too large to fit in target type")))
    return res_ok(v)


@model_re(r"core::num::<impl (u8|u16|u32|u64|usize|i32|i64)>::from_str_radix")
def m_from_str_radix(ctx, cty, a):
    s = as_sstr(a[0])
    radix = a[1]
    th = cty.a[-2][0][6:-1]
    lo, hi = int_range(th)
    if not s.is_concrete():
        raise Inconclusive("from_str_radix on symbolic string")
    c = s.concrete()
    try:
        if not c or c[0] in "+-" and th[0] == "u" and c[0] == "-" or "_" in c or c.strip() != c:
            raise ValueError
        v = int(c, radix)
    except ValueError:
        return res_err(ErrObj(SStr.lit("invalid digit")))
    if v < lo or v > hi:
        return res_err(ErrObj(SStr.lit("overflow")))
    return res_ok(v)


@model("<str as std::cmp::PartialEq>::eq", "<std::string::String as std::cmp::PartialEq>::eq")
def m_str_eq(ctx, cty, a):
    return as_sstr(a[0]).eq(as_sstr(a[1]))


@model("<str as std::cmp::PartialEq>::ne", "<std::string::String as std::cmp::PartialEq>::ne")
def m_str_ne(ctx, cty, a):
    return b_not(as_sstr(a[0]).eq(as_sstr(a[1])))


def hasher_write(ctx, state, data):
    h = deref(state)
    if type(h) is Agg:
        f = ctx.prog.traitimpl.get(("Hasher", Program._last(h.ty), "write"))
        if f is not None:
            ctx.call_function(f, [state, data])
            return
    raise Inconclusive("Hasher::write on %r" % (h,))


def int_bytes(v, n):
    if isinstance(v, bool):
        v = int(v)
    if isinstance(v, int):
        v &= (1 << (8 * n)) - 1
        return [(v >> (8 * k)) & 255 for k in range(n)]
    return [v % 256] + [(v / (256 ** k)) % 256 for k in range(1, n)]


@model("<_ as std::hash::Hash>::hash")
def m_hash(ctx, cty, a):
    state = a[1]
    v = deref(a[0])
    if type(v) is Agg:
        f = ctx.prog.traitimpl.get(("Hash", Program._last(v.ty), "hash"))
        if f is not None:
            return ctx.call_function(f, [a[0], a[1]])
        if v.ty == "std::option::Option":
            hasher_write(ctx, state, SStr.of_chars(int_bytes(v.variant, 8)))
            if v.variant == 1:
                m_hash(ctx, cty, [Ref(v.fields, 0), state])
            return unit()
        if v.ty in ("tuple", "array"):
            for i in range(len(v.fields)):
                m_hash(ctx, cty, [Ref(v.fields, i), state])
            return unit()
        raise Inconclusive("Hash of %r" % (v,))
    if isinstance(v, (SStr, StringObj)):
        hasher_write(ctx, state, as_sstr(v))
        hasher_write(ctx, state, SStr.of_chars([0xFF]))
        return unit()
    if isinstance(v, (int, bool)) or is_sym(v):
        t = cty.a.strip_refs().head() if cty.kind == "qpath" else "u64"
        n = INT_BITS.get(t, 64) // 8
        if t == "bool":
            n = 1
        hasher_write(ctx, state, SStr.of_chars(int_bytes(v, n)))
        return unit()
    raise Inconclusive("Hash of %r" % (v,))


@model("core::str::<impl str>::chars", "core::str::<impl str>::bytes")
def m_chars(ctx, cty, a):
    s = as_sstr(a[0])
    if cty.a[-1][0] == "bytes":
        n = s.known_len()
        if n is None:
            raise Inconclusive("bytes() of unknown-length string")
        return seq_iter([s.byte_at(i) for i in range(n)], "bytes")
    if s.is_concrete():
        return seq_iter([ord(ch) for ch in s.text()], "chars")
    raise Inconclusive("chars() on symbolic string")


@model("core::str::<impl str>::split")
def m_split(ctx, cty, a):
    s, p = as_sstr(a[0]), pat_sstr(a[1])
    if s.is_concrete() and p.is_concrete():
        return seq_iter([SStr.lit(x) for x in s.concrete().split(p.concrete())], "split")
    out = []
    start = 0
    while True:
        i = find_pat(ctx, s, p, start)
        if i is None:
            out.append(s.slice(start, len(s)))
            break
        out.append(s.slice(start, i))
        start = i + len(p)
    return seq_iter(out, "split")


@model("core::str::<impl str>::to_lowercase", "core::str::<impl str>::to_uppercase")
def m_lower(ctx, cty, a):
    s = as_sstr(a[0])
    if s.is_concrete():
        t = s.text()
        return StringObj(SStr.from_utf8_text(t.lower() if cty.a[-1][0] == "to_lowercase" else t.upper()))
    raise Inconclusive("case conversion on symbolic")


@model("core::str::<impl str>::find")
def m_str_find(ctx, cty, a):
    s, p = as_sstr(a[0]), pat_sstr(a[1])
    if s.is_concrete() and p.is_concrete():
        i = s.concrete().find(p.concrete())
        return opt_none() if i < 0 else opt_some(i)
    i = find_pat(ctx, s, p)
    return opt_none() if i is None else opt_some(i)


@model("core::str::<impl str>::replace", "std::str::<impl str>::replace")
def m_str_replace(ctx, cty, a):
    s, p, r = as_sstr(a[0]), pat_sstr(a[1]), as_sstr(a[2])
    if s.is_concrete() and p.is_concrete() and r.is_concrete():
        return StringObj(SStr.lit(s.concrete().replace(p.concrete(), r.concrete())))
    raise Inconclusive("replace on symbolic")


@model("core::char::methods::<impl char>::is_ascii_digit", "core::char::methods::<impl char>::is_ascii_hexdigit")
def m_char_pred(ctx, cty, a):
    c = deref(a[0])
    if isinstance(c, int):
        ch = chr(c)
        return ch.isdigit() if cty.a[-1][0] == "is_ascii_digit" else ch in "0123456789abcdefABCDEF"
    raise Inconclusive("char predicate on symbolic")


def find_pat(ctx, s, p, start=0):
    """first index >= start where pattern p occurs in s (deciding with the solver), or None"""
    k = len(p)
    for i in range(start, len(s) - k + 1):
        if ctx.decide(s.slice(i, i + k).eq(p)):
            return i
    return None


@model("core::str::<impl str>::split_once")
def m_split_once(ctx, cty, a):
    s, p = as_sstr(a[0]), pat_sstr(a[1])
    i = find_pat(ctx, s, p)
    if i is None:
        return opt_none()
    return opt_some(tup(s.slice(0, i), s.slice(i + len(p), len(s))))


@model("core::str::<impl str>::rsplit_once")
def m_rsplit_once(ctx, cty, a):
    s, p = as_sstr(a[0]), pat_sstr(a[1])
    k = len(p)
    for i in range(len(s) - k, -1, -1):
        if ctx.decide(s.slice(i, i + k).eq(p)):
            return opt_some(tup(s.slice(0, i), s.slice(i + k, len(s))))
    return opt_none()


@model("std::string::String::truncate")
def m_string_truncate(ctx, cty, a):
    s = deref1(a[0])
    n = ctx.concretize(a[1], "truncate")
    if n < len(s.s):
        s.s = s.s.slice(0, n)
    return unit()


@model("std::string::String::insert_str")
def m_string_insert_str(ctx, cty, a):
    s = deref1(a[0])
    i = ctx.concretize(a[1], "insert_str")
    s.s = s.s.slice(0, i).concat(as_sstr(a[2])).concat(s.s.slice(i, len(s.s)))
    return unit()


@model("std::string::String::pop")
def m_string_pop(ctx, cty, a):
    s = deref1(a[0])
    if len(s.s) == 0:
        return opt_none()
    c = s.s.byte_at(len(s.s) - 1)
    if type(c) is int and c >= 0x80:
        raise Inconclusive("String::pop on non-ASCII")
    s.s = s.s.slice(0, len(s.s) - 1)
    return opt_some(c)


@model("core::str::<impl str>::eq_ignore_ascii_case")
def m_eq_ignore_case(ctx, cty, a):
    s, p = as_sstr(a[0]), as_sstr(a[1])
    if s.is_concrete() and p.is_concrete():
        return s.concrete().lower() == p.concrete().lower()
    raise Inconclusive("eq_ignore_ascii_case on symbolic")


@model("core::str::<impl str>::get")
def m_str_get(ctx, cty, a):
    s = as_sstr(a[0])
    from .models_core import range_bounds
    lo, hi = range_bounds(ctx, a[1], len(s))
    if lo > hi or hi > len(s):
        return opt_none()
    return opt_some(s.slice(lo, hi))


@model("core::str::<impl str>::rfind")
def m_str_rfind(ctx, cty, a):
    s, p = as_sstr(a[0]), pat_sstr(a[1])
    k = len(p)
    for i in range(len(s) - k, -1, -1):
        if ctx.decide(s.slice(i, i + k).eq(p)):
            return opt_some(i)
    return opt_none()


@model("core::str::<impl str>::trim_start_matches")
def m_trim_start_matches(ctx, cty, a):
    s, p = as_sstr(a[0]), pat_sstr(a[1])
    k = len(p)
    i = 0
    while k and i + k <= len(s) and ctx.decide(s.slice(i, i + k).eq(p)):
        i += k
    return s.slice(i, len(s))


@model("core::str::<impl str>::is_char_boundary")
def m_is_char_boundary(ctx, cty, a):
    s = as_sstr(a[0])
    i = ctx.concretize(a[1], "is_char_boundary")
    if i == 0 or i == len(s):
        return True
    if i > len(s):
        return False
    c = s.byte_at(i)
    if type(c) is int:
        return not (0x80 <= c < 0xC0)
    return True


@model("core::str::<impl str>::repeat", "std::str::<impl str>::repeat")
def m_str_repeat(ctx, cty, a):
    s = as_sstr(a[0])
    n = ctx.concretize(a[1], "repeat")
    out = SStr()
    for _ in range(n):
        out = out.concat(s)
    return StringObj(out)


@model("core::str::<impl str>::split_at")
def m_str_split_at(ctx, cty, a):
    s = as_sstr(a[0])
    n = ctx.concretize(a[1], "split_at")
    if n > len(s):
        raise PanicPath("byte index out of bounds in split_at", "bounds")
    return tup(s.slice(0, n), s.slice(n, len(s)))
