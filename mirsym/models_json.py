"""Models: serde_json Value / Map / Number, serialisation and parsing.

Value layout (variant indices follow serde_json's declaration):
Null=0, Bool=1 [b], Number=2 [Number[n]], String=3 [String], Array=4 [Vec], Object=5 [Map]
"""
import z3
from .models import *
from .values import *
from .sstr import SStr
from .interp import Inconclusive

V = "serde_json::Value"
NULL, BOOL, NUM, STR, ARR, OBJ = range(6)


def jv(variant, *fields):
    return Agg(V, variant, list(fields))


def jnum(n):
    return jv(NUM, Agg("serde_json::Number", None, [n]))


def jstr(s):
    if isinstance(s, StringObj):
        return jv(STR, s)
    return jv(STR, StringObj(s if isinstance(s, SStr) else SStr.lit(s)))


def jmap():
    return MapObj("json")


def to_json_value(ctx, v):
    """From<T> for Value / to_value(&T) on runtime values"""
    v = deref(v)
    if type(v) is Agg:
        if v.ty == V:
            return clone_value(ctx, v)
        if v.ty == "std::option::Option":
            return jv(NULL) if v.variant == 0 else to_json_value(ctx, v.fields[0])
        if v.ty in ("array", "tuple"):
            return jv(ARR, VecObj([to_json_value(ctx, x) for x in v.fields]))
        if v.ty == "serde_json::Number":
            return jv(NUM, v)
        if v.ty == "()":
            return jv(NULL)
        raise Inconclusive("to_json_value of %r" % (v,))
    if isinstance(v, bool):
        return jv(BOOL, v)
    if isinstance(v, z3.BoolRef):
        return jv(BOOL, v)
    if isinstance(v, int) or is_sym(v):
        return jnum(v)
    if isinstance(v, (SStr, StringObj)):
        return jstr(as_sstr(v))
    if isinstance(v, (VecObj, SliceRef)):
        return jv(ARR, VecObj([to_json_value(ctx, x) for x in seq_items(v)]))
    if isinstance(v, MapObj):
        if v.kind == "json":
            return jv(OBJ, clone_value(ctx, v))
        m = jmap()
        for k, x in v.entries:
            map_insert(ctx, m, StringObj(as_sstr(k)), to_json_value(ctx, x))
        return jv(OBJ, m)
    if isinstance(v, Opaque) and v.what == "float":
        return jnum(v)
    raise Inconclusive("to_json_value of %r" % (v,))


@model("<serde_json::Value as std::convert::From>::from")
def m_value_from(ctx, cty, a):
    v = a[0]
    if isinstance(v, MapObj) and v.kind == "json":
        return jv(OBJ, v)
    if isinstance(v, StringObj):
        return jv(STR, v)
    if isinstance(v, VecObj):
        return jv(ARR, VecObj([x if (type(x) is Agg and x.ty == V) else to_json_value(ctx, x) for x in v.items]))
    return to_json_value(ctx, v)


@model("<serde_json::Map as std::convert::Into>::into")
def m_map_into_value(ctx, cty, a):
    return jv(OBJ, a[0])


@model("serde_json::to_value", "serde_json::value::to_value")
def m_to_value(ctx, cty, a):
    return res_ok(to_json_value(ctx, a[0]))


@model("<serde_json::Value as std::default::Default>::default")
def m_value_default(ctx, cty, a):
    return jv(NULL)


def _val(a):
    return deref(a)


@model("serde_json::Value::is_null")
def m_is_null(ctx, cty, a):
    return _val(a[0]).variant == NULL


@model("serde_json::Value::is_string")
def m_is_string(ctx, cty, a):
    return _val(a[0]).variant == STR


@model("serde_json::Value::is_array")
def m_is_array(ctx, cty, a):
    return _val(a[0]).variant == ARR


@model("serde_json::Value::is_object")
def m_is_object(ctx, cty, a):
    return _val(a[0]).variant == OBJ


@model("serde_json::Value::is_boolean")
def m_is_boolean(ctx, cty, a):
    return _val(a[0]).variant == BOOL


@model("serde_json::Value::is_number")
def m_is_number(ctx, cty, a):
    return _val(a[0]).variant == NUM


def _num(v):
    return v.fields[0].fields[0]


@model("serde_json::Value::is_i64")
def m_is_i64(ctx, cty, a):
    v = _val(a[0])
    if v.variant != NUM:
        return False
    n = _num(v)
    if isinstance(n, Opaque):
        return False
    if isinstance(n, int):
        return -(1 << 63) <= n < (1 << 63)
    return z3.And(n >= -(1 << 63), n < (1 << 63))


@model("serde_json::Value::is_u64")
def m_is_u64(ctx, cty, a):
    v = _val(a[0])
    if v.variant != NUM:
        return False
    n = _num(v)
    if isinstance(n, Opaque):
        return False
    if isinstance(n, int):
        return 0 <= n < (1 << 64)
    return z3.And(n >= 0, n < (1 << 64))


@model("serde_json::Value::is_f64")
def m_is_f64(ctx, cty, a):
    v = _val(a[0])
    return v.variant == NUM and isinstance(_num(v), Opaque)


@model("serde_json::Value::as_str")
def m_as_str(ctx, cty, a):
    v = _val(a[0])
    return opt_some(v.fields[0].s) if v.variant == STR else opt_none()


@model("serde_json::Value::as_array", "serde_json::Value::as_array_mut", "serde_json::Value::as_object",
       "serde_json::Value::as_object_mut")
def m_as_container(ctx, cty, a):
    v = _val(a[0])
    want = ARR if "array" in cty.a[-1][0] else OBJ
    return opt_some(Ref(v.fields, 0, True)) if v.variant == want else opt_none()


@model("serde_json::Value::as_bool")
def m_as_bool(ctx, cty, a):
    v = _val(a[0])
    return opt_some(v.fields[0]) if v.variant == BOOL else opt_none()


@model("serde_json::Value::as_u64")
def m_as_u64(ctx, cty, a):
    v = _val(a[0])
    if v.variant != NUM:
        return opt_none()
    n = _num(v)
    if isinstance(n, Opaque):
        return opt_none()
    if isinstance(n, int):
        return opt_some(n) if 0 <= n < (1 << 64) else opt_none()
    if ctx.decide(z3.And(n >= 0, n < (1 << 64))):
        return opt_some(n)
    return opt_none()


@model("serde_json::Value::as_i64")
def m_as_i64(ctx, cty, a):
    v = _val(a[0])
    if v.variant != NUM:
        return opt_none()
    n = _num(v)
    if isinstance(n, Opaque):
        return opt_none()
    if isinstance(n, int):
        return opt_some(n) if -(1 << 63) <= n < (1 << 63) else opt_none()
    if ctx.decide(z3.And(n >= -(1 << 63), n < (1 << 63))):
        return opt_some(n)
    return opt_none()


@model("serde_json::Value::as_f64")
def m_as_f64(ctx, cty, a):
    v = _val(a[0])
    if v.variant != NUM:
        return opt_none()
    return opt_some(Opaque("float", _num(v)))


@model("serde_json::Value::get", "serde_json::Value::get_mut")
def m_value_get(ctx, cty, a):
    v = _val(a[0])
    idx = deref(a[1])
    if isinstance(idx, (SStr, StringObj)):
        if v.variant != OBJ:
            return opt_none()
        m = v.fields[0]
        i = map_find(ctx, m, idx)
        return opt_none() if i is None else opt_some(Ref(m.entries[i], 1, True))
    if v.variant != ARR:
        return opt_none()
    i = ctx.concretize(idx, "Value::get")
    items = v.fields[0].items
    return opt_some(Ref(items, i, True)) if 0 <= i < len(items) else opt_none()


@model("serde_json::Value::take")
def m_value_take(ctx, cty, a):
    r = a[0]
    old = r.get()
    r.set(jv(NULL))
    return old


_static_null = [jv(NULL)]


def json_index(ctx, ref, v, idx):
    """<Value as Index<I>>::index: missing -> &Value::Null"""
    idx = deref(idx)
    if isinstance(idx, (SStr, StringObj)):
        if v.variant == OBJ:
            m = v.fields[0]
            i = map_find(ctx, m, idx)
            if i is not None:
                return Ref(m.entries[i], 1)
        return Ref([jv(NULL)], 0)
    i = ctx.concretize(idx, "Value index")
    if v.variant == ARR:
        items = v.fields[0].items
        if 0 <= i < len(items):
            return Ref(items, i)
    return Ref([jv(NULL)], 0)


# ------------------------------------------------------------------ serialisation
_ESC = {34: '\\"', 92: "\\\\", 8: "\\b", 12: "\\f", 10: "\\n", 13: "\\r", 9: "\\t"}


def json_escape(ctx, s):
    out = []
    for c in s.chars:
        if type(c) is not int:
            if not ctx.char_in(c, "json_escape"):
                out.append(c)
                continue
            c = ctx.concretize(c, "char needing JSON escape")
        if c in _ESC:
            out.extend(ord(x) for x in _ESC[c])
        elif c < 0x20:
            out.extend(ord(x) for x in "\\u%04x" % c)
        else:
            out.append(c)
    return SStr.of_chars(out)


def num_to_sstr(ctx, n):
    if isinstance(n, Opaque):
        raise Inconclusive("serialising a float")
    from .models_str import int_to_sstr
    return int_to_sstr(ctx, n)


def serialize(ctx, v, out):
    v = deref(v)
    if isinstance(v, MapObj):
        return ser_map(ctx, v, out)
    if isinstance(v, (SStr, StringObj)):
        out.append('"')
        out.append(json_escape(ctx, as_sstr(v)))
        out.append('"')
        return
    if isinstance(v, (VecObj, SliceRef)):
        out.append("[")
        for i, x in enumerate(seq_items(v)):
            if i:
                out.append(",")
            serialize(ctx, x, out)
        out.append("]")
        return
    if isinstance(v, bool):
        out.append("true" if v else "false")
        return
    if isinstance(v, int) or is_sym(v):
        out.append(num_to_sstr(ctx, v))
        return
    if type(v) is not Agg or v.ty != V:
        if type(v) is Agg and v.ty == "std::option::Option":
            if v.variant == 0:
                out.append("null")
            else:
                serialize(ctx, v.fields[0], out)
            return
        raise Inconclusive("serialize %r" % (v,))
    k = v.variant
    if k == NULL:
        out.append("null")
    elif k == BOOL:
        b = v.fields[0]
        if not isinstance(b, bool):
            b = ctx.decide(b)
        out.append("true" if b else "false")
    elif k == NUM:
        out.append(num_to_sstr(ctx, _num(v)))
    elif k == STR:
        out.append('"')
        out.append(json_escape(ctx, v.fields[0].s))
        out.append('"')
    elif k == ARR:
        out.append("[")
        for i, x in enumerate(v.fields[0].items):
            if i:
                out.append(",")
            serialize(ctx, x, out)
        out.append("]")
    else:
        ser_map(ctx, v.fields[0], out)


def ser_map(ctx, m, out):
    out.append("{")
    ents = m.entries
    if m.kind == "hash":
        order = map_order(ctx, m)
        ents = [m.entries[i] for i in order]
    for i, (k, x) in enumerate(ents):
        if i:
            out.append(",")
        out.append('"')
        out.append(json_escape(ctx, as_sstr(k)))
        out.append('":')
        serialize(ctx, x, out)
    out.append("}")


def to_json_sstr(ctx, v):
    out = []
    serialize(ctx, v, out)
    return SStr(out)


@model("serde_json::to_string", "serde_json::ser::to_string")
def m_to_string(ctx, cty, a):
    return res_ok(StringObj(to_json_sstr(ctx, a[0])))


@model("serde_json::to_vec", "serde_json::ser::to_vec")
def m_to_vec(ctx, cty, a):
    return res_ok(StringObj(to_json_sstr(ctx, a[0])))


@model("<serde_json::Value as std::fmt::Display>::fmt")
def m_value_display(ctx, cty, a):
    fm = deref(a[1])
    fm.fields[0] = fm.fields[0].concat(to_json_sstr(ctx, a[0]))
    return res_ok(unit())


# ------------------------------------------------------------------ parsing
class JsonErr(Exception):
    pass


class JParser:
    """JSON parser over byte strings whose bytes may be symbolic: every test on a symbolic byte is
    decided by the solver (forking when both outcomes are feasible)."""

    def __init__(self, ctx, s):
        self.ctx = ctx
        self.toks = list(s.chars)
        self.i = 0

    def peek(self):
        """next byte as a python int (symbolic bytes at structural positions are concretised by forking)"""
        if self.i >= len(self.toks):
            return None
        c = self.toks[self.i]
        if type(c) is not int:
            c = self.ctx.concretize(c, "JSON structural byte", limit=300)
            self.toks[self.i] = c
        return c

    def ws(self):
        while True:
            c = self.peek()
            if c is not None and c in (32, 9, 10, 13):
                self.i += 1
            else:
                return

    def parse_document(self):
        self.ws()
        v = self.value(0)
        self.ws()
        if self.i != len(self.toks):
            raise JsonErr("trailing characters")
        return v

    def value(self, depth):
        if depth > 120:
            raise JsonErr("recursion limit")
        self.ws()
        t = self.peek()
        if t is None:
            raise JsonErr("EOF")
        if t == 123:
            self.i += 1
            m = jmap()
            self.ws()
            if self.peek() == 125:
                self.i += 1
                return jv(OBJ, m)
            while True:
                self.ws()
                if self.peek() != 34:
                    raise JsonErr("key must be a string")
                k = self.string()
                self.ws()
                if self.peek() != 58:
                    raise JsonErr("expected colon")
                self.i += 1
                v = self.value(depth + 1)
                map_insert(self.ctx, m, StringObj(k), v)
                self.ws()
                t = self.peek()
                if t == 44:
                    self.i += 1
                    continue
                if t == 125:
                    self.i += 1
                    return jv(OBJ, m)
                raise JsonErr("expected , or }")
        if t == 91:
            self.i += 1
            items = []
            self.ws()
            if self.peek() == 93:
                self.i += 1
                return jv(ARR, VecObj(items))
            while True:
                items.append(self.value(depth + 1))
                self.ws()
                t = self.peek()
                if t == 44:
                    self.i += 1
                    continue
                if t == 93:
                    self.i += 1
                    return jv(ARR, VecObj(items))
                raise JsonErr("expected , or ]")
        if t == 34:
            return jstr(self.string())
        if t == 116:
            self.lit("true")
            return jv(BOOL, True)
        if t == 102:
            self.lit("false")
            return jv(BOOL, False)
        if t == 110:
            self.lit("null")
            return jv(NULL)
        if t == 45 or 48 <= t <= 57:
            return self.number()
        raise JsonErr("expected value")

    def lit(self, w):
        for ch in w:
            if self.peek() != ord(ch):
                raise JsonErr("expected ident")
            self.i += 1

    def number(self):
        # digits may be symbolic (rendering of a symbolic integer): keep the value symbolic
        start = self.i
        neg = False
        if self.peek() == 45:
            neg = True
            self.i += 1
        digs = []
        ctx = self.ctx
        while self.i < len(self.toks):
            c = self.toks[self.i]
            if ctx.char_in(c, "digit"):
                digs.append(c)
                self.i += 1
            else:
                break
        if not digs:
            raise JsonErr("invalid number")
        nxt = self.peek()
        if nxt is not None and nxt in (46, 101, 69):
            # fraction / exponent: only concrete text supported
            j = self.i
            txt = []
            while j < len(self.toks) and type(self.toks[j]) is int and chr(self.toks[j]) in "+-0123456789.eE":
                txt.append(chr(self.toks[j]))
                j += 1
            self.i = j
            if not all(type(d) is int for d in digs):
                raise Inconclusive("symbolic float literal")
            import re
            full = ("-" if neg else "") + "".join(chr(d) for d in digs) + "".join(txt)
            if not re.fullmatch(r"-?(0|[1-9][0-9]*)(\.[0-9]+)?([eE][+-]?[0-9]+)?", full):
                raise JsonErr("invalid number")
            return jnum(Opaque("float", full))
        d0 = digs[0]
        if len(digs) > 1:
            if (type(d0) is int and d0 == 48) or (type(d0) is not int and ctx.decide(d0 == 48)):
                raise JsonErr("leading zero")
        v = 0
        for d in digs:
            v = v * 10 + (d - 48)
        if neg:
            v = -v
        if isinstance(v, int):
            if -(1 << 63) <= v < (1 << 64):
                return jnum(v)
            return jnum(Opaque("float", str(v)))
        return jnum(v)

    def string(self):
        assert self.peek() == 34
        self.i += 1
        out = []
        ctx = self.ctx
        while True:
            if self.i >= len(self.toks):
                raise JsonErr("EOF in string")
            t = self.toks[self.i]
            self.i += 1
            if type(t) is not int:
                if not ctx.char_in(t, "json_escape"):
                    out.append(t)
                    continue
                t = ctx.concretize(t, "JSON string byte")
            if t == 34:
                return SStr.of_chars(out)
            if t == 92:
                out.extend(self.escape())
                continue
            if t < 0x20:
                raise JsonErr("control character in string")
            out.append(t)

    def escape(self):
        t = self.peek()
        if t is None:
            raise JsonErr("EOF in escape")
        self.i += 1
        m = {34: 34, 92: 92, 47: 47, 98: 8, 102: 12, 110: 10, 114: 13, 116: 9}
        if t in m:
            return [m[t]]
        if t == 117:
            hx = []
            for _ in range(4):
                c = self.peek()
                if c is None or chr(c) not in "0123456789abcdefABCDEF":
                    raise JsonErr("invalid unicode escape")
                hx.append(chr(c))
                self.i += 1
            cp = int("".join(hx), 16)
            if 0xD800 <= cp < 0xDC00:
                if self.peek() == 92:
                    self.i += 1
                    if self.peek() != 117:
                        raise JsonErr("lone surrogate")
                    self.i += 1
                    lo = []
                    for _ in range(4):
                        c = self.peek()
                        if c is None or chr(c) not in "0123456789abcdefABCDEF":
                            raise JsonErr("invalid unicode escape")
                        lo.append(chr(c))
                        self.i += 1
                    lo = int("".join(lo), 16)
                    if not (0xDC00 <= lo < 0xE000):
                        raise JsonErr("lone surrogate")
                    cp = 0x10000 + ((cp - 0xD800) << 10) + (lo - 0xDC00)
                else:
                    raise JsonErr("lone surrogate")
            elif 0xDC00 <= cp < 0xE000:
                raise JsonErr("lone surrogate")
            return list(chr(cp).encode("utf-8"))
        raise JsonErr("invalid escape")


def parse_json(ctx, s):
    try:
        return res_ok(JParser(ctx, s).parse_document())
    except JsonErr as e:
        return res_err(ErrObj(SStr.lit("json: " + str(e))))


@model("serde_json::from_str", "serde_json::de::from_str", "serde_json::from_slice", "serde_json::de::from_slice")
def m_from_str(ctx, cty, a):
    t = generic_arg(cty, -1)
    r = parse_json(ctx, as_sstr(a[0]))
    if r.variant == 0 and t is not None and t.head() == "serde_json::Map":
        v = r.fields[0]
        if v.variant != OBJ:
            return res_err(ErrObj(SStr.lit("json: expected map")))
        return res_ok(v.fields[0])
    return r


# serde_json::Map specifics not covered by the generic map models
@model("serde_json::Map::append")
def m_jmap_append(ctx, cty, a):
    m, o = deref(a[0]), deref(a[1])
    for k, v in o.entries:
        map_insert(ctx, m, k, v)
    del o.entries[:]
    return unit()


@model("serde_json::Number::as_i64", "serde_json::Number::as_u64")
def m_number_as(ctx, cty, a):
    n = deref(a[0]).fields[0]
    if isinstance(n, Opaque):
        return opt_none()
    return opt_some(n)
