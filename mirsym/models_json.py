"""Models: serde_json Value / Map / Number, serialisation and parsing.

Value layout (variant indices follow serde_json's declaration):
Null=0, Bool=1 [b], Number=2 [Number[n]], String=3 [String], Array=4 [Vec], Object=5 [Map]
"""
import z3
from .models import *
from .values import *
from .sstr import SStr, Sym
from .interp import Inconclusive

V = "serde_json::Value"
NULL, BOOL, NUM, STR, ARR, OBJ = range(6)


def jv(variant, *fields):
    return Agg(V, variant, list(fields))


def jnum(n):
    return jv(NUM, Agg("serde_json::Number", None, [n]))


def jstr(s):
    if isinstance(s, StringObj):
        return jv(STR, s)
    return jv(STR, StringObj(s if isinstance(s, SStr) else SStr.lit(s)))


def jmap():
    return MapObj("json")


def to_json_value(ctx, v):
    """From<T> for Value / to_value(&T) on runtime values"""
    v = deref(v)
    if type(v) is Agg:
        if v.ty == V:
            return clone_value(ctx, v)
        if v.ty == "std::option::Option":
            return jv(NULL) if v.variant == 0 else to_json_value(ctx, v.fields[0])
        if v.ty in ("array", "tuple"):
            return jv(ARR, VecObj([to_json_value(ctx, x) for x in v.fields]))
        if v.ty == "serde_json::Number":
            return jv(NUM, v)
        if v.ty == "()":
            return jv(NULL)
        raise Inconclusive("to_json_value of %r" % (v,))
    if isinstance(v, bool):
        return jv(BOOL, v)
    if isinstance(v, z3.BoolRef):
        return jv(BOOL, v)
    if isinstance(v, int) or is_sym(v):
        return jnum(v)
    if isinstance(v, (SStr, StringObj)):
        return jstr(as_sstr(v))
    if isinstance(v, (VecObj, SliceRef)):
        return jv(ARR, VecObj([to_json_value(ctx, x) for x in seq_items(v)]))
    if isinstance(v, MapObj):
        if v.kind == "json":
            return jv(OBJ, clone_value(ctx, v))
        m = jmap()
        for k, x in v.entries:
            map_insert(ctx, m, StringObj(as_sstr(k)), to_json_value(ctx, x))
        return jv(OBJ, m)
    if isinstance(v, Opaque) and v.what == "float":
        return jnum(v)
    raise Inconclusive("to_json_value of %r" % (v,))


@model("<serde_json::Value as std::convert::From>::from")
def m_value_from(ctx, cty, a):
    v = a[0]
    if isinstance(v, MapObj) and v.kind == "json":
        return jv(OBJ, v)
    if isinstance(v, StringObj):
        return jv(STR, v)
    if isinstance(v, VecObj):
        return jv(ARR, VecObj([x if (type(x) is Agg and x.ty == V) else to_json_value(ctx, x) for x in v.items]))
    return to_json_value(ctx, v)


@model("<serde_json::Map as std::convert::Into>::into")
def m_map_into_value(ctx, cty, a):
    return jv(OBJ, a[0])


@model("serde_json::to_value", "serde_json::value::to_value")
def m_to_value(ctx, cty, a):
    return res_ok(to_json_value(ctx, a[0]))


@model("<serde_json::Value as std::default::Default>::default")
def m_value_default(ctx, cty, a):
    return jv(NULL)


def _val(a):
    return deref(a)


@model("serde_json::Value::is_null")
def m_is_null(ctx, cty, a):
    return _val(a[0]).variant == NULL


@model("serde_json::Value::is_string")
def m_is_string(ctx, cty, a):
    return _val(a[0]).variant == STR


@model("serde_json::Value::is_array")
def m_is_array(ctx, cty, a):
    return _val(a[0]).variant == ARR


@model("serde_json::Value::is_object")
def m_is_object(ctx, cty, a):
    return _val(a[0]).variant == OBJ


@model("serde_json::Value::is_boolean")
def m_is_boolean(ctx, cty, a):
    return _val(a[0]).variant == BOOL


@model("serde_json::Value::is_number")
def m_is_number(ctx, cty, a):
    return _val(a[0]).variant == NUM


def _num(v):
    return v.fields[0].fields[0]


@model("serde_json::Value::is_i64")
def m_is_i64(ctx, cty, a):
    v = _val(a[0])
    if v.variant != NUM:
        return False
    n = _num(v)
    if isinstance(n, Opaque):
        return False
    if isinstance(n, int):
        return -(1 << 63) <= n < (1 << 63)
    return z3.And(n >= -(1 << 63), n < (1 << 63))


@model("serde_json::Value::is_u64")
def m_is_u64(ctx, cty, a):
    v = _val(a[0])
    if v.variant != NUM:
        return False
    n = _num(v)
    if isinstance(n, Opaque):
        return False
    if isinstance(n, int):
        return 0 <= n < (1 << 64)
    return z3.And(n >= 0, n < (1 << 64))


@model("serde_json::Value::is_f64")
def m_is_f64(ctx, cty, a):
    v = _val(a[0])
    return v.variant == NUM and isinstance(_num(v), Opaque)


@model("serde_json::Value::as_str")
def m_as_str(ctx, cty, a):
    v = _val(a[0])
    return opt_some(v.fields[0].s) if v.variant == STR else opt_none()


@model("serde_json::Value::as_array", "serde_json::Value::as_array_mut", "serde_json::Value::as_object",
       "serde_json::Value::as_object_mut")
def m_as_container(ctx, cty, a):
    v = _val(a[0])
    want = ARR if "array" in cty.a[-1][0] else OBJ
    return opt_some(Ref(v.fields, 0, True)) if v.variant == want else opt_none()


@model("serde_json::Value::as_bool")
def m_as_bool(ctx, cty, a):
    v = _val(a[0])
    return opt_some(v.fields[0]) if v.variant == BOOL else opt_none()


@model("serde_json::Value::as_u64")
def m_as_u64(ctx, cty, a):
    v = _val(a[0])
    if v.variant != NUM:
        return opt_none()
    n = _num(v)
    if isinstance(n, Opaque):
        return opt_none()
    if isinstance(n, int):
        return opt_some(n) if 0 <= n < (1 << 64) else opt_none()
    if ctx.decide(z3.And(n >= 0, n < (1 << 64))):
        return opt_some(n)
    return opt_none()


@model("serde_json::Value::as_i64")
def m_as_i64(ctx, cty, a):
    v = _val(a[0])
    if v.variant != NUM:
        return opt_none()
    n = _num(v)
    if isinstance(n, Opaque):
        return opt_none()
    if isinstance(n, int):
        return opt_some(n) if -(1 << 63) <= n < (1 << 63) else opt_none()
    if ctx.decide(z3.And(n >= -(1 << 63), n < (1 << 63))):
        return opt_some(n)
    return opt_none()


@model("serde_json::Value::as_f64")
def m_as_f64(ctx, cty, a):
    v = _val(a[0])
    if v.variant != NUM:
        return opt_none()
    return opt_some(Opaque("float", _num(v)))


@model("serde_json::Value::get", "serde_json::Value::get_mut")
def m_value_get(ctx, cty, a):
    v = _val(a[0])
    idx = deref(a[1])
    if isinstance(idx, (SStr, StringObj)):
        if v.variant != OBJ:
            return opt_none()
        m = v.fields[0]
        i = map_find(ctx, m, idx)
        return opt_none() if i is None else opt_some(Ref(m.entries[i], 1, True))
    if v.variant != ARR:
        return opt_none()
    i = ctx.concretize(idx, "Value::get")
    items = v.fields[0].items
    return opt_some(Ref(items, i, True)) if 0 <= i < len(items) else opt_none()


@model("serde_json::Value::take")
def m_value_take(ctx, cty, a):
    r = a[0]
    old = r.get()
    r.set(jv(NULL))
    return old


_static_null = [jv(NULL)]


def json_index(ctx, ref, v, idx):
    """<Value as Index<I>>::index: missing -> &Value::Null"""
    idx = deref(idx)
    if isinstance(idx, (SStr, StringObj)):
        if v.variant == OBJ:
            m = v.fields[0]
            i = map_find(ctx, m, idx)
            if i is not None:
                return Ref(m.entries[i], 1)
        return Ref([jv(NULL)], 0)
    i = ctx.concretize(idx, "Value index")
    if v.variant == ARR:
        items = v.fields[0].items
        if 0 <= i < len(items):
            return Ref(items, i)
    return Ref([jv(NULL)], 0)


# ------------------------------------------------------------------ serialisation
def json_escape(ctx, s):
    out = []
    for p in s.parts:
        if isinstance(p, str):
            buf = []
            for ch in p:
                o = ord(ch)
                if ch == '"':
                    buf.append('\\"')
                elif ch == "\\":
                    buf.append("\\\\")
                elif o == 8:
                    buf.append("\\b")
                elif o == 12:
                    buf.append("\\f")
                elif o == 10:
                    buf.append("\\n")
                elif o == 13:
                    buf.append("\\r")
                elif o == 9:
                    buf.append("\\t")
                elif o < 0x20:
                    buf.append("\\u%04x" % o)
                else:
                    buf.append(ch)
            out.append("".join(buf))
        else:
            out.extend(escape_sym_part(ctx, p))
    return SStr(out)


def escape_sym_part(ctx, p):
    if sym_safe(ctx, p):
        return [p]
    if p.n is None:
        raise Inconclusive("JSON-escaping a symbolic string of unknown length")
    # per-byte decision
    out = []
    for i in range(p.n):
        e = p.e if p.n == 1 else z3.SubString(p.e, i, 1)
        code = z3.StrToCode(e)
        if ctx.decide(code == 34):
            out.append('\\"')
        elif ctx.decide(code == 92):
            out.append("\\\\")
        elif ctx.decide(code < 32):
            c = ctx.concretize(code, "control char")
            out.append(json_escape(ctx, SStr.lit(chr(c))).concrete())
        else:
            out.append(Sym(e, 1))
    return out


def sym_safe(ctx, p):
    key = p.e.get_id()
    cache = ctx.__dict__.setdefault("_safe_cache", {})
    r = cache.get(key)
    if r is None:
        e = p.e
        bad = z3.Or(z3.Contains(e, z3.StringVal('"')), z3.Contains(e, z3.StringVal("\\")),
                    z3.InRe(e, z3.Concat(z3.Full(z3.ReSort(z3.StringSort())), z3.Range(chr(0), chr(31)),
                                         z3.Full(z3.ReSort(z3.StringSort())))))
        r = not ctx.feasible(bad)
        cache[key] = r
    return r


def num_to_sstr(ctx, n):
    if isinstance(n, Opaque):
        raise Inconclusive("serialising a float")
    from .models_str import int_to_sstr
    return int_to_sstr(ctx, n)


def serialize(ctx, v, out):
    v = deref(v)
    if isinstance(v, MapObj):
        return ser_map(ctx, v, out)
    if isinstance(v, (SStr, StringObj)):
        out.append('"')
        out.append(json_escape(ctx, as_sstr(v)))
        out.append('"')
        return
    if isinstance(v, (VecObj, SliceRef)):
        out.append("[")
        for i, x in enumerate(seq_items(v)):
            if i:
                out.append(",")
            serialize(ctx, x, out)
        out.append("]")
        return
    if isinstance(v, bool):
        out.append("true" if v else "false")
        return
    if isinstance(v, int) or is_sym(v):
        out.append(num_to_sstr(ctx, v))
        return
    if type(v) is not Agg or v.ty != V:
        if type(v) is Agg and v.ty == "std::option::Option":
            if v.variant == 0:
                out.append("null")
            else:
                serialize(ctx, v.fields[0], out)
            return
        raise Inconclusive("serialize %r" % (v,))
    k = v.variant
    if k == NULL:
        out.append("null")
    elif k == BOOL:
        b = v.fields[0]
        if not isinstance(b, bool):
            b = ctx.decide(b)
        out.append("true" if b else "false")
    elif k == NUM:
        out.append(num_to_sstr(ctx, _num(v)))
    elif k == STR:
        out.append('"')
        out.append(json_escape(ctx, v.fields[0].s))
        out.append('"')
    elif k == ARR:
        out.append("[")
        for i, x in enumerate(v.fields[0].items):
            if i:
                out.append(",")
            serialize(ctx, x, out)
        out.append("]")
    else:
        ser_map(ctx, v.fields[0], out)


def ser_map(ctx, m, out):
    out.append("{")
    ents = m.entries
    if m.kind == "hash":
        order = map_order(ctx, m)
        ents = [m.entries[i] for i in order]
    for i, (k, x) in enumerate(ents):
        if i:
            out.append(",")
        out.append('"')
        out.append(json_escape(ctx, as_sstr(k)))
        out.append('":')
        serialize(ctx, x, out)
    out.append("}")


def to_json_sstr(ctx, v):
    out = []
    serialize(ctx, v, out)
    return SStr(out)


@model("serde_json::to_string", "serde_json::ser::to_string")
def m_to_string(ctx, cty, a):
    return res_ok(StringObj(to_json_sstr(ctx, a[0])))


@model("serde_json::to_vec", "serde_json::ser::to_vec")
def m_to_vec(ctx, cty, a):
    return res_ok(StringObj(to_json_sstr(ctx, a[0])))


@model("<serde_json::Value as std::fmt::Display>::fmt")
def m_value_display(ctx, cty, a):
    fm = deref(a[1])
    fm.fields[0] = fm.fields[0].concat(to_json_sstr(ctx, a[0]))
    return res_ok(unit())


# ------------------------------------------------------------------ parsing
class JsonErr(Exception):
    pass


class JParser:
    """JSON parser over segmented strings. Symbolic parts are accepted inside string literals
    (when they need no escaping) and as integer literals (str.from_int terms)."""

    def __init__(self, ctx, s):
        self.ctx = ctx
        # flatten into a list of tokens: single chars or Sym
        self.toks = []
        for p in s.parts:
            if isinstance(p, str):
                self.toks.extend(p)
            else:
                self.toks.append(p)
        self.i = 0

    def peek(self):
        return self.toks[self.i] if self.i < len(self.toks) else None

    def ws(self):
        while self.i < len(self.toks) and isinstance(self.toks[self.i], str) and self.toks[self.i] in " \t\n\r":
            self.i += 1

    def parse_document(self):
        self.ws()
        v = self.value(0)
        self.ws()
        if self.i != len(self.toks):
            raise JsonErr("trailing characters")
        return v

    def value(self, depth):
        if depth > 120:
            raise JsonErr("recursion limit")
        self.ws()
        t = self.peek()
        if t is None:
            raise JsonErr("EOF")
        if isinstance(t, Sym):
            return self.sym_token(t)
        if t == "{":
            self.i += 1
            m = jmap()
            self.ws()
            if self.peek() == "}":
                self.i += 1
                return jv(OBJ, m)
            while True:
                self.ws()
                if self.peek() != '"':
                    raise JsonErr("key must be a string")
                k = self.string()
                self.ws()
                if self.peek() != ":":
                    raise JsonErr("expected colon")
                self.i += 1
                v = self.value(depth + 1)
                map_insert(self.ctx, m, StringObj(k), v)
                self.ws()
                t = self.peek()
                if t == ",":
                    self.i += 1
                    continue
                if t == "}":
                    self.i += 1
                    return jv(OBJ, m)
                raise JsonErr("expected , or }")
        if t == "[":
            self.i += 1
            items = []
            self.ws()
            if self.peek() == "]":
                self.i += 1
                return jv(ARR, VecObj(items))
            while True:
                items.append(self.value(depth + 1))
                self.ws()
                t = self.peek()
                if t == ",":
                    self.i += 1
                    continue
                if t == "]":
                    self.i += 1
                    return jv(ARR, VecObj(items))
                raise JsonErr("expected , or ]")
        if t == '"':
            return jstr(self.string())
        if t == "t" and self.lit("true"):
            return jv(BOOL, True)
        if t == "f" and self.lit("false"):
            return jv(BOOL, False)
        if t == "n" and self.lit("null"):
            return jv(NULL)
        if t == "-" or t.isdigit():
            return self.number()
        raise JsonErr("expected value")

    def lit(self, w):
        seg = self.toks[self.i:self.i + len(w)]
        if all(isinstance(x, str) for x in seg) and "".join(seg) == w:
            self.i += len(w)
            return True
        raise JsonErr("expected ident")

    def sym_token(self, t):
        e = t.e
        if e.decl().kind() == z3.Z3_OP_INT_TO_STR:
            self.i += 1
            return jnum(e.arg(0))
        # symbolic byte outside of a string: decide what it can be
        raise Inconclusive("symbolic JSON structure: %s" % e)

    def number(self):
        j = self.i
        txt = []
        while j < len(self.toks) and isinstance(self.toks[j], str) and self.toks[j] in "+-0123456789.eE":
            txt.append(self.toks[j])
            j += 1
        if j < len(self.toks) and isinstance(self.toks[j], Sym):
            raise Inconclusive("number adjacent to symbolic part")
        s = "".join(txt)
        self.i = j
        import re
        if not re.fullmatch(r"-?(0|[1-9][0-9]*)(\.[0-9]+)?([eE][+-]?[0-9]+)?", s):
            raise JsonErr("invalid number")
        if re.fullmatch(r"-?[0-9]+", s):
            n = int(s)
            if -(1 << 63) <= n < (1 << 64):
                return jnum(n)
            return jnum(Opaque("float", s))
        return jnum(Opaque("float", s))

    def string(self):
        assert self.peek() == '"'
        self.i += 1
        out = []
        ctx = self.ctx
        while True:
            t = self.peek()
            if t is None:
                raise JsonErr("EOF in string")
            self.i += 1
            if isinstance(t, Sym):
                if sym_safe(ctx, t):
                    out.append(t)
                    continue
                if t.n is None:
                    raise Inconclusive("parsing unknown-length unsafe symbolic string content")
                # split into single bytes and decide each
                bytes_ = [Sym(t.e if t.n == 1 else z3.SubString(t.e, k, 1), 1) for k in range(t.n)]
                self.toks[self.i:self.i] = bytes_
                # handle first byte now
                t = self.toks[self.i]
                self.i += 1
                code = z3.StrToCode(t.e)
                if ctx.decide(code == 34):
                    return SStr(out)
                if ctx.decide(code == 92):
                    out.append(self.escape())
                    continue
                if ctx.decide(code < 32):
                    raise JsonErr("control character in string")
                cache = ctx.__dict__.setdefault("_safe_cache", {})
                cache[t.e.get_id()] = True
                out.append(t)
                continue
            if t == '"':
                return SStr(out)
            if t == "\\":
                out.append(self.escape())
                continue
            if ord(t) < 0x20:
                raise JsonErr("control character in string")
            out.append(t)

    def escape(self):
        t = self.peek()
        if t is None:
            raise JsonErr("EOF in escape")
        self.i += 1
        if isinstance(t, Sym):
            ctx = self.ctx
            if t.n != 1:
                bytes_ = [Sym(z3.SubString(t.e, k, 1), 1) for k in range(t.n)] if t.n else None
                if bytes_ is None:
                    raise Inconclusive("escape followed by unknown-length symbolic")
                self.toks[self.i:self.i] = bytes_[1:]
                t = bytes_[0]
            code = z3.StrToCode(t.e)
            for ch, rep in (('"', '"'), ("\\", "\\"), ("/", "/"), ("b", "\b"), ("f", "\f"), ("n", "\n"), ("r", "\r"), ("t", "\t")):
                if ctx.decide(code == ord(ch)):
                    return rep
            if ctx.decide(code == ord("u")):
                raise Inconclusive("symbolic \\u escape")
            raise JsonErr("invalid escape")
        m = {'"': '"', "\\": "\\", "/": "/", "b": "\b", "f": "\f", "n": "\n", "r": "\r", "t": "\t"}
        if t in m:
            return m[t]
        if t == "u":
            hx = self.toks[self.i:self.i + 4]
            if len(hx) < 4 or not all(isinstance(x, str) and x in "0123456789abcdefABCDEF" for x in hx):
                raise JsonErr("invalid unicode escape")
            self.i += 4
            cp = int("".join(hx), 16)
            if 0xD800 <= cp < 0xDC00:
                nx = self.toks[self.i:self.i + 6]
                if len(nx) == 6 and nx[0] == "\\" and nx[1] == "u" and all(isinstance(x, str) for x in nx):
                    lo = int("".join(nx[2:]), 16)
                    if 0xDC00 <= lo < 0xE000:
                        self.i += 6
                        cp = 0x10000 + ((cp - 0xD800) << 10) + (lo - 0xDC00)
                    else:
                        raise JsonErr("lone surrogate")
                else:
                    raise JsonErr("lone surrogate")
            elif 0xDC00 <= cp < 0xE000:
                raise JsonErr("lone surrogate")
            return chr(cp).encode("utf-8").decode("latin-1")
        raise JsonErr("invalid escape")


def parse_json(ctx, s):
    try:
        return res_ok(JParser(ctx, s).parse_document())
    except JsonErr as e:
        return res_err(ErrObj(SStr.lit("json: " + str(e))))


@model("serde_json::from_str", "serde_json::de::from_str", "serde_json::from_slice", "serde_json::de::from_slice")
def m_from_str(ctx, cty, a):
    t = generic_arg(cty, -1)
    r = parse_json(ctx, as_sstr(a[0]))
    if r.variant == 0 and t is not None and t.head() == "serde_json::Map":
        v = r.fields[0]
        if v.variant != OBJ:
            return res_err(ErrObj(SStr.lit("json: expected map")))
        return res_ok(v.fields[0])
    return r


# serde_json::Map specifics not covered by the generic map models
@model("serde_json::Map::append")
def m_jmap_append(ctx, cty, a):
    m, o = deref(a[0]), deref(a[1])
    for k, v in o.entries:
        map_insert(ctx, m, k, v)
    del o.entries[:]
    return unit()


@model("serde_json::Number::as_i64", "serde_json::Number::as_u64")
def m_number_as(ctx, cty, a):
    n = deref(a[0]).fields[0]
    if isinstance(n, Opaque):
        return opt_none()
    return opt_some(n)
