"""Parser for rustc `-Zunpretty=mir` text output."""
import re
from .rtypes import parse_type, split_top, Ty


class Place:
    __slots__ = ("local", "proj", "ty")

    def __init__(self, local, proj=(), ty=None):
        self.local = local
        self.proj = proj
        self.ty = ty  # type text of the last field projection (if the place ends in one)

    def __repr__(self):
        return "Place(_%d%s)" % (self.local, "".join("." + str(p) for p in self.proj))


class Function:
    def __init__(self, name, kind):
        self.name = name
        self.kind = kind  # fn | const | static | promoted
        self.arg_count = 0
        self.local_types = {}
        self.ret_type = None
        self.blocks = {}
        self.nlocals = 0
        self.text_hash = None
        self.src = None  # (start_line, end_line) in dump
        self.simple_const = None  # for `const X: T = const "..";`

    def __repr__(self):
        return "<Function %s>" % self.name


class Block:
    __slots__ = ("stmts", "term", "cleanup")

    def __init__(self):
        self.stmts = []
        self.term = None
        self.cleanup = False


class ParseError(Exception):
    pass


_place_cache = {}


def parse_place(s):
    s = s.strip()
    r = _place_cache.get(s)
    if r is None:
        p, i = _place(s, 0)
        if i != len(s):
            raise ParseError("trailing in place %r at %d" % (s, i))
        r = p
        _place_cache[s] = r
    return r


_local_re = re.compile(r"_(\d+)")


def _place(s, i):
    """returns (Place, next_index)"""
    if s[i] == "_":
        m = _local_re.match(s, i)
        local = int(m.group(1))
        proj = ()
        i = m.end()
    elif s[i] == "(":
        if s[i + 1] == "*":
            inner, j = _place(s, i + 2)
            if s[j] != ")":
                raise ParseError("deref close in %r" % s)
            local, proj = inner.local, inner.proj + (("deref",),)
            i = j + 1
        else:
            inner, j = _place(s, i + 1)
            local, proj = inner.local, inner.proj
            if s.startswith(" as ", j):
                k = j + 4
                # variant name up to ')'
                e = s.index(")", k)
                proj = proj + (("downcast", s[k:e]),)
                i = e + 1
            elif s[j] == ".":
                m = re.compile(r"\.(\d+): ").match(s, j)
                if not m:
                    raise ParseError("field proj in %r at %d" % (s, j))
                idx = int(m.group(1))
                # skip type up to matching ')'
                k = m.end()
                d = 0
                while True:
                    c = s[k]
                    if c in "([{<":
                        d += 1
                    elif c in ")]}>":
                        if c == ">" and s[k - 1] in "-=":
                            pass
                        else:
                            if d == 0 and c == ")":
                                break
                            d -= 1
                    k += 1
                proj = proj + (("field", idx),)
                fty = s[m.end():k]
                i = k + 1
                if i >= len(s) or s[i] != "[":
                    return Place(local, proj, fty), i
            elif s[j] == ")":
                i = j + 1
            else:
                raise ParseError("place paren in %r at %d" % (s, j))
    else:
        raise ParseError("place start in %r at %d" % (s, i))
    # index projections
    while i < len(s) and s[i] == "[":
        e = s.index("]", i)
        inner = s[i + 1:e]
        m = _local_re.fullmatch(inner)
        if m:
            proj = proj + (("index", int(m.group(1))),)
        else:
            m2 = re.fullmatch(r"(-?)(\d+) of (\d+)", inner)
            m3 = re.fullmatch(r"(\d+)\.\.(-?)(\d*)", inner) or re.fullmatch(r"(\d+):(-?)(\d*)", inner)
            if m2:
                proj = proj + (("constindex", int(m2.group(2)), m2.group(1) == "-"),)
            elif m3:
                proj = proj + (("subslice", int(m3.group(1)), int(m3.group(3) or 0), m3.group(2) == "-"),)
            else:
                raise ParseError("index proj %r" % inner)
        i = e + 1
    return Place(local, proj), i


def unescape_rust(body, is_bytes):
    """Rust string-literal body -> 'bstr' (python str whose chars are bytes)."""
    out = bytearray()
    i = 0
    n = len(body)
    while i < n:
        c = body[i]
        if c == "\\":
            d = body[i + 1]
            if d == "n":
                out.append(10); i += 2
            elif d == "r":
                out.append(13); i += 2
            elif d == "t":
                out.append(9); i += 2
            elif d == "0":
                out.append(0); i += 2
            elif d == "\\":
                out.append(92); i += 2
            elif d == '"':
                out.append(34); i += 2
            elif d == "'":
                out.append(39); i += 2
            elif d == "x":
                out.append(int(body[i + 2:i + 4], 16)); i += 4
            elif d == "u":
                e = body.index("}", i)
                cp = int(body[i + 3:e], 16)
                out.extend(chr(cp).encode("utf-8"))
                i = e + 1
            else:
                raise ParseError("escape \\%s" % d)
        else:
            out.extend(c.encode("utf-8"))
            i += 1
    return out.decode("latin-1")


_int_re = re.compile(r"(-?\d+)_(u8|u16|u32|u64|u128|usize|i8|i16|i32|i64|i128|isize)$")


def parse_const(s):
    s = s.strip()
    m = _int_re.match(s)
    if m:
        return ("int", int(m.group(1)), m.group(2))
    if s == "true":
        return ("bool", True)
    if s == "false":
        return ("bool", False)
    if s == "()":
        return ("unit",)
    if s.startswith('"') and s.endswith('"'):
        return ("str", unescape_rust(s[1:-1], False))
    if s.startswith('b"') and s.endswith('"'):
        return ("bytes", unescape_rust(s[2:-1], True))
    if s.startswith("'") and s.endswith("'"):
        b = unescape_rust(s[1:-1], False)
        ch = b.encode("latin-1").decode("utf-8")
        return ("char", ord(ch))
    if s.startswith("{alloc"):
        m = re.match(r"\{alloc\d+(?:\+0x[0-9a-f]+)?: (.*)\}$", s)
        return ("alloc", m.group(1) if m else s)
    if re.match(r"-?\d+(\.\d+)?(e-?\d+)?f(32|64)$", s) or re.match(r"-?(inf|NaN)_?f(32|64)", s):
        return ("float", s)
    m = re.match(r"(.*)::promoted\[(\d+)\]$", s)
    if m:
        return ("named", s)
    if s.startswith("ZeroSized: "):
        return ("zst", s[len("ZeroSized: "):])
    return ("path", s)


def parse_operand(s):
    s = s.strip()
    if s.startswith("no_retag "):
        s = s[9:]
    if s.startswith("copy "):
        return ("copy", parse_place(s[5:]))
    if s.startswith("move "):
        return ("move", parse_place(s[5:]))
    if s.startswith("const "):
        return ("const", parse_const(s[6:]))
    # bare path: function item / unit struct
    return ("const", ("path", s))


_binops = {"Add", "Sub", "Mul", "Div", "Rem", "BitXor", "BitAnd", "BitOr", "Shl", "Shr", "Eq", "Lt", "Le", "Ne", "Ge", "Gt",
           "Offset", "Cmp", "AddUnchecked", "SubUnchecked", "MulUnchecked", "ShlUnchecked", "ShrUnchecked"}
_chkops = {"AddWithOverflow", "SubWithOverflow", "MulWithOverflow"}
_unops = {"Not", "Neg", "PtrMetadata"}


def find_matching(s, i):
    """s[i] is an opening bracket; return index of its match (string-aware)."""
    pairs = {"(": ")", "[": "]", "{": "}"}
    d = 0
    n = len(s)
    instr = False
    while i < n:
        c = s[i]
        if instr:
            if c == "\\":
                i += 1
            elif c == '"':
                instr = False
        elif c == '"':
            instr = True
        elif c in "([{":
            d += 1
        elif c in ")]}":
            d -= 1
            if d == 0:
                return i
        i += 1
    raise ParseError("unbalanced %r" % s)


def split_callee_args(s):
    """'callee(args)' -> (callee_text, [arg_text])"""
    # the args are the last balanced (...) group at the end of s
    assert s.endswith(")"), s
    d = 0
    i = len(s) - 1
    instr = False
    while i >= 0:
        c = s[i]
        if instr:
            if c == '"' and (i == 0 or s[i - 1] != "\\"):
                instr = False
        elif c == '"':
            instr = True
        elif c == ")":
            d += 1
        elif c == "(":
            d -= 1
            if d == 0:
                break
        i -= 1
    return s[:i], split_top(s[i + 1:-1])


def parse_rvalue(s):
    s = s.strip()
    if s.startswith("no_retag "):
        s = s[9:]
    if s.startswith(("copy ", "move ", "const ")):
        # could be cast: "<operand> as <ty> (<kind>)"
        m = re.match(r"(.*) as (.*) \(([A-Za-z]+(?:\(.*\))?)\)$", s)
        if m and not s.endswith('"'):
            op_s = m.group(1)
            if op_s.count("(") == op_s.count(")"):
                return ("cast", parse_operand(op_s), m.group(2), m.group(3))
        return ("use", parse_operand(s))
    if s.startswith("&raw const (fake) "):
        return ("rawptr", False, parse_place(s[18:]))
    if s.startswith("&raw const "):
        return ("rawptr", False, parse_place(s[11:]))
    if s.startswith("&raw mut "):
        return ("rawptr", True, parse_place(s[9:]))
    if s.startswith("&mut "):
        return ("ref", True, parse_place(s[5:]))
    if s.startswith("&fake "):
        return ("ref", False, parse_place(s.split(" ", 2)[-1]))
    if s.startswith("&"):
        return ("ref", False, parse_place(s[1:]))
    m = re.match(r"([A-Za-z]+)\((.*)\)$", s)
    if m:
        op = m.group(1)
        if op in _binops or op in _chkops:
            a, b = split_top(m.group(2))
            return ("chkbin" if op in _chkops else "bin", op, parse_operand(a), parse_operand(b))
        if op in _unops:
            return ("un", op, parse_operand(m.group(2)))
        if op == "discriminant":
            return ("disc", parse_place(m.group(2)))
        if op == "Len":
            return ("len", parse_place(m.group(2)))
        if op == "CopyForDeref":
            return ("use", ("copy", parse_place(m.group(2))))
        if op in ("SizeOf", "AlignOf"):
            return ("nullop", op, m.group(2))
        if op == "ShallowInitBox":
            a, b = split_top(m.group(2))
            return ("shallowbox", parse_operand(a), b)
    if s == "()":
        return ("agg_tuple", [])
    if s.startswith("(") and s.endswith(")"):
        inner = s[1:-1]
        parts = split_top(inner)
        return ("agg_tuple", [parse_operand(p) for p in parts])
    if s.startswith("[") and s.endswith("]"):
        inner = s[1:-1]
        parts = split_top(inner, ";")
        if len(parts) == 2:
            return ("repeat", parse_operand(parts[0]), parts[1])
        return ("agg_array", [parse_operand(p) for p in split_top(inner)])
    # closure / coroutine aggregate
    if s.startswith("{closure@"):
        e = find_matching(s, 0)
        loc = s[len("{closure@"):e].split(": ")[0]
        rest = s[e + 1:].strip()
        fields = []
        if rest:
            assert rest.startswith("{") and rest.endswith("}"), s
            for f in split_top(rest[1:-1].strip()):
                k, v = f.split(": ", 1)
                fields.append((k, parse_operand(v)))
        return ("agg_closure", loc, fields)
    # ADT aggregate: Path { f: op, .. } | Path(op, ..) | Path
    if s.endswith("}"):
        # find the top-level '{' that opens the field list: last '{' at depth 0 preceded by space
        i = _find_struct_brace(s)
        path = s[:i].strip()
        body = s[i + 1:-1].strip()
        fields = []
        if body:
            for f in split_top(body):
                k, v = f.split(": ", 1)
                fields.append((k, parse_operand(v)))
        return ("agg_adt", path, fields, "struct")
    if s.endswith(")"):
        callee, args = split_callee_args(s)
        return ("agg_adt", callee.strip(), [(str(i), parse_operand(a)) for i, a in enumerate(args)], "tuple")
    return ("agg_adt", s, [], "unit")


def _find_struct_brace(s):
    d = 0
    i = len(s) - 1
    instr = False
    while i >= 0:
        c = s[i]
        if instr:
            if c == '"' and s[i - 1] != "\\":
                instr = False
        elif c == '"':
            instr = True
        elif c in ")]}":
            d += 1
        elif c in "([{":
            d -= 1
            if d == 0 and c == "{":
                return i
        i -= 1
    raise ParseError("struct brace %r" % s)


_term_call_re = re.compile(r"^(?:(.+?) = )?(.+\)) -> (\[return: bb(\d+), unwind[^\]]*\]|unwind [a-z]+|\[return: bb(\d+)\]|bb\d+);$")


def parse_line(line):
    """returns ('stmt', ...) or ('term', ...)"""
    s = line.strip()
    if s.startswith(("StorageLive(", "StorageDead(", "FakeRead(", "AscribeUserType(", "PlaceMention(", "Retag(", "Coverage",
                     "ConstEvalCounter", "nop", "Deinit(", "BackwardIncompatibleDropHint", "assume(")):
        return ("stmt", ("nop",))
    if s == "return;":
        return ("term", ("return",))
    if s == "unreachable;":
        return ("term", ("unreachable",))
    if s.startswith("resume") or s.startswith("unwind "):
        return ("term", ("resume",))
    m = re.match(r"goto -> bb(\d+);$", s)
    if m:
        return ("term", ("goto", int(m.group(1))))
    if s.startswith("switchInt("):
        e = find_matching(s, len("switchInt"))
        op = parse_operand(s[len("switchInt("):e])
        m = re.match(r" -> \[(.*)\];$", s[e + 1:])
        targets = []
        otherwise = None
        for t in m.group(1).split(", "):
            k, v = t.split(": ")
            bb = int(v[2:])
            if k == "otherwise":
                otherwise = bb
            else:
                targets.append((int(k), bb))
        return ("term", ("switch", op, targets, otherwise))
    if s.startswith("drop("):
        e = find_matching(s, 4)
        pl = parse_place(s[5:e])
        m = re.search(r"return: bb(\d+)", s[e:])
        return ("term", ("drop", pl, int(m.group(1))))
    if s.startswith("assert("):
        e = find_matching(s, 6)
        inner = split_top(s[7:e])
        cond = inner[0]
        expected = True
        if cond.startswith("!"):
            expected = False
            cond = cond[1:]
        m = re.search(r"success: bb(\d+)", s[e:])
        return ("term", ("assert", parse_operand(cond), expected, inner[1] if len(inner) > 1 else "", int(m.group(1))))
    if s.startswith(("falseEdge", "falseUnwind")):
        m = re.search(r"real: bb(\d+)", s)
        return ("term", ("goto", int(m.group(1))))
    m = _term_call_re.match(s)
    if m:
        dest = parse_place(m.group(1)) if m.group(1) else None
        callee, args = split_callee_args(m.group(2))
        ret = m.group(4) or m.group(5)
        callee = callee.strip()
        if callee.startswith(("move ", "copy ")):
            cal = ("op", parse_operand(callee))
        else:
            cal = ("path", callee)
        return ("term", ("call", dest, cal, [parse_operand(a) for a in args], int(ret) if ret else None))
    # statements
    m = re.match(r"discriminant\((.*)\) = (\d+);$", s)
    if m:
        return ("stmt", ("setdisc", parse_place(m.group(1)), int(m.group(2))))
    if s.endswith(";"):
        body = s[:-1]
        # split at first top-level " = "
        i = _find_assign(body)
        if i is None:
            raise ParseError("unknown statement %r" % s)
        return ("stmt", ("assign", parse_place(body[:i]), parse_rvalue(body[i + 3:])))
    raise ParseError("unknown line %r" % s)


def _find_assign(s):
    d = 0
    for i, c in enumerate(s):
        if c in "([{":
            d += 1
        elif c in ")]}":
            d -= 1
        elif c == " " and d == 0 and s.startswith(" = ", i):
            return i
    return None


def _protect_impl(line):
    """hide the ': ' inside `<impl at file:l:c: l:c>` so that the name/type split works"""
    return re.sub(r"(<impl at [^>]*?): (\d+:\d+>)", lambda m: m.group(1) + "\x00" + m.group(2), line)


_fn_hdr = re.compile(r"^fn (.*?)\((.*)\) -> (.*?) \{$")
_const_hdr = re.compile(r"^(const|static|static mut) (.*?): (.*) = \{$")
_const_simple = re.compile(r"^(const|static) (.*?): (.*?) = const (.*);$")
_let_re = re.compile(r"^\s*let (?:mut )?_(\d+): (.*);$")
_bb_re = re.compile(r"^    bb(\d+)( \(cleanup\))?: \{$")


def parse_mir(text, crate):
    """Parse a MIR dump; returns dict name -> Function. `crate` is prefixed to names."""
    import hashlib
    funcs = {}
    lines = text.split("\n")
    i = 0
    n = len(lines)
    while i < n:
        line = lines[i]
        f = None
        if line.startswith("fn "):
            m = _fn_hdr.match(line)
            if not m:
                raise ParseError("fn header %r" % line)
            f = Function(crate + "::" + m.group(1), "fn")
            args = split_top(m.group(2))
            f.arg_count = len(args)
            for a in args:
                am = re.match(r"_(\d+): (.*)$", a)
                f.local_types[int(am.group(1))] = am.group(2)
            f.ret_type = m.group(3)
        elif line.startswith(("const ", "static ")):
            line = _protect_impl(line)
            m = _const_simple.match(line)
            if m:
                f = Function(crate + "::" + m.group(2).replace("\x00", ": "), "const")
                f.ret_type = m.group(3)
                f.simple_const = parse_const(m.group(4))
                funcs[f.name] = f
                i += 1
                continue
            m = _const_hdr.match(line)
            if not m:
                raise ParseError("const header %r" % line)
            f = Function(crate + "::" + m.group(2).replace("\x00", ": "), m.group(1).split()[0])
            f.ret_type = m.group(3).replace("\x00", ": ")
        if f is None:
            i += 1
            continue
        start = i
        i += 1
        cur = None
        while i < n and lines[i] != "}":
            l = lines[i]
            bm = _bb_re.match(l)
            if bm:
                cur = Block()
                cur.cleanup = bool(bm.group(2))
                f.blocks[int(bm.group(1))] = cur
            elif cur is not None:
                if l == "    }":
                    cur = None
                elif l.strip():
                    if cur.cleanup:
                        pass
                    else:
                        try:
                            kind, node = parse_line(l)
                        except (ParseError, ValueError, AssertionError, AttributeError, IndexError) as e:
                            kind, node = "stmt", ("unparsed", l.strip(), repr(e))
                        if kind == "stmt":
                            if node[0] != "nop":
                                cur.stmts.append(node)
                        else:
                            cur.term = node
            else:
                lm = _let_re.match(l)
                if lm:
                    f.local_types[int(lm.group(1))] = lm.group(2)
            i += 1
        f.src = (start, i)
        body = "\n".join(lines[start:i + 1])
        f.text_hash = hashlib.sha256(body.encode()).hexdigest()[:16]
        f.nlocals = max(f.local_types.keys(), default=0) + 1
        if f.name in funcs:
            k = 2
            while "%s#dup%d" % (f.name, k) in funcs:
                k += 1
            f.name = "%s#dup%d" % (f.name, k)
        funcs[f.name] = f
        i += 1
    return funcs
