"""Models: an ideal in-memory file system behind std::fs / std::path / std::io (used by the directory backend), and the
Deflate codec of the flate2 crate abstracted to an invertible framing (compress(x) = 0xC0 ++ x).

The file system is a per-path Python structure (forked with the process like every other piece of state):
`ctx.fs = {"dirs": [SStr...], "files": [[path SStr, content SStr]...]}`. Paths are byte strings whose characters may be
symbolic; two paths are compared with the solver. Operations are atomic and never fail for environmental reasons
(no permissions, no disk-full, no interruption): only the logical errors of an ideal file system are produced
(missing file / directory, reading past the end)."""
import z3
from .models import *
from .values import *
from .sstr import SStr, CLASS_RANGES
from .interp import Inconclusive

SLASH = 47


def _fs(ctx):
    fs = getattr(ctx, "fs", None)
    if fs is None:
        fs = {"dirs": [SStr.lit("/")], "files": []}
        ctx.fs = fs
    return fs


def _eq(ctx, a, b):
    r = a.eq(b)
    if r is True or r is False:
        return r
    return ctx.decide(r)


def _is_dir(ctx, p):
    for d in _fs(ctx)["dirs"]:
        if _eq(ctx, d, p):
            return True
    return False


def _find_file(ctx, p):
    for e in _fs(ctx)["files"]:
        if _eq(ctx, e[0], p):
            return e
    return None


def _is_slash(ctx, c):
    if type(c) is int:
        return c == SLASH
    k = ctx.char_cls.get(c.get_id())
    if k is not None and not any(lo <= SLASH <= hi for lo, hi in CLASS_RANGES[k]):
        return False
    return ctx.decide(c == SLASH)


def _split(ctx, p):
    """(parent, file name) of a path, None for the root / a path without separator"""
    cs = p.chars
    n = len(cs)
    # ignore one trailing separator
    while n > 1 and _is_slash(ctx, cs[n - 1]):
        n -= 1
    i = n - 1
    while i >= 0 and not _is_slash(ctx, cs[i]):
        i -= 1
    if i < 0:
        return None, SStr.of_chars(cs[:n])
    parent = SStr.of_chars(cs[:i]) if i > 0 else SStr.lit("/")
    return parent, SStr.of_chars(cs[i + 1:n])


def _io_err(msg):
    return res_err(ErrObj(SStr.lit(msg)))


def path_of(v):
    v = deref(v)
    if isinstance(v, FileObj):
        return v.path
    return as_sstr(v)


class FileObj(HeapObj):
    __slots__ = ("path", "pos", "writable")

    def __init__(self, path, writable):
        self.path = path
        self.pos = 0
        self.writable = writable


class DirEntryObj(HeapObj):
    __slots__ = ("path",)

    def __init__(self, path):
        self.path = path


class CodecObj(HeapObj):
    __slots__ = ("data", "kind")

    def __init__(self, data, kind):
        self.data = data
        self.kind = kind


def bytes_of(v):
    v = deref(v)
    if isinstance(v, SStr):
        return v
    if isinstance(v, StringObj):
        return v.s
    if isinstance(v, VecObj):
        return SStr.of_chars(v.items)
    if isinstance(v, SliceRef):
        return SStr.of_chars(list(v.items()))
    raise Inconclusive("expected bytes, got %r" % (v,))


# ------------------------------------------------------------------ std::path
@model("std::path::Path::new", "std::path::PathBuf::as_path", "std::path::Path::to_path_buf", "std::path::PathBuf::new",
       "<std::path::PathBuf as std::ops::Deref>::deref", "<std::path::PathBuf as std::convert::AsRef>::as_ref",
       "<std::path::Path as std::convert::AsRef>::as_ref", "<str as std::convert::AsRef>::as_ref",
       "<std::string::String as std::convert::AsRef>::as_ref", "std::path::Path::as_os_str", "std::path::PathBuf::into_os_string")
def m_path_new(ctx, cty, a):
    if not a:
        return StringObj(SStr())
    return StringObj(path_of(a[0]))


@model("<std::path::PathBuf as std::clone::Clone>::clone")
def m_pathbuf_clone(ctx, cty, a):
    return StringObj(path_of(a[0]))


@model("std::path::Path::join")
def m_path_join(ctx, cty, a):
    base, other = path_of(a[0]), path_of(a[1])
    if len(other.chars) and _is_slash(ctx, other.chars[0]):
        return StringObj(other)
    if len(base.chars) and _is_slash(ctx, base.chars[-1]):
        return StringObj(base.concat(other))
    return StringObj(base.concat(SStr.lit("/")).concat(other))


@model("std::path::Path::parent")
def m_path_parent(ctx, cty, a):
    parent, _ = _split(ctx, path_of(a[0]))
    return opt_none() if parent is None else opt_some(StringObj(parent))


@model("std::path::Path::file_name")
def m_path_file_name(ctx, cty, a):
    _, name = _split(ctx, path_of(a[0]))
    return opt_none() if not len(name.chars) else opt_some(StringObj(name))


@model("std::ffi::OsStr::to_str", "std::path::Path::to_str")
def m_osstr_to_str(ctx, cty, a):
    return opt_some(path_of(a[0]))


@model("std::path::Path::exists")
def m_path_exists(ctx, cty, a):
    p = path_of(a[0])
    return _is_dir(ctx, p) or _find_file(ctx, p) is not None


@model("std::path::Path::is_dir")
def m_path_is_dir(ctx, cty, a):
    return _is_dir(ctx, path_of(a[0]))


@model("std::path::Path::is_file")
def m_path_is_file(ctx, cty, a):
    return _find_file(ctx, path_of(a[0])) is not None


# ------------------------------------------------------------------ std::fs
@model("std::fs::create_dir_all")
def m_create_dir_all(ctx, cty, a):
    p = path_of(a[0])
    if _find_file(ctx, p) is not None:
        return _io_err("File exists")
    todo = []
    cur = p
    while cur is not None and not _is_dir(ctx, cur):
        if _find_file(ctx, cur) is not None:
            return _io_err("Not a directory")
        todo.append(cur)
        cur, _ = _split(ctx, cur)
    _fs(ctx)["dirs"].extend(reversed(todo))
    return res_ok(unit())


@model("std::fs::File::create")
def m_file_create(ctx, cty, a):
    p = path_of(a[0])
    parent, name = _split(ctx, p)
    if parent is None or not _is_dir(ctx, parent):
        return _io_err("No such file or directory")
    if _is_dir(ctx, p):
        return _io_err("Is a directory")
    e = _find_file(ctx, p)
    if e is None:
        _fs(ctx)["files"].append([p, SStr()])
    else:
        e[1] = SStr()
    return res_ok(FileObj(p, True))


@model("std::fs::File::open")
def m_file_open(ctx, cty, a):
    p = path_of(a[0])
    if _find_file(ctx, p) is None:
        return _io_err("No such file or directory")
    return res_ok(FileObj(p, False))


@model("<std::fs::File as std::io::Write>::write_all", "<&std::fs::File as std::io::Write>::write_all")
def m_file_write_all(ctx, cty, a):
    f = deref(a[0])
    if not f.writable:
        return _io_err("Bad file descriptor")
    e = _find_file(ctx, f.path)
    data = bytes_of(a[1])
    cur = e[1]
    e[1] = SStr.of_chars(cur.chars[:f.pos] + data.chars + cur.chars[f.pos + len(data.chars):])
    f.pos += len(data.chars)
    return res_ok(unit())


@model("<std::fs::File as std::io::Write>::flush", "std::fs::File::sync_all", "std::fs::File::sync_data")
def m_file_flush(ctx, cty, a):
    return res_ok(unit())


@model("std::fs::metadata", "std::fs::File::metadata")
def m_metadata(ctx, cty, a):
    p = path_of(a[0])
    e = _find_file(ctx, p)
    if e is not None:
        return res_ok(Agg("std::fs::Metadata", None, [len(e[1].chars), False]))
    if _is_dir(ctx, p):
        return res_ok(Agg("std::fs::Metadata", None, [0, True]))
    return _io_err("No such file or directory")


@model("std::fs::Metadata::len")
def m_metadata_len(ctx, cty, a):
    return deref(a[0]).fields[0]


@model("std::fs::Metadata::is_dir")
def m_metadata_is_dir(ctx, cty, a):
    return deref(a[0]).fields[1]


@model("std::fs::Metadata::is_file")
def m_metadata_is_file(ctx, cty, a):
    return not deref(a[0]).fields[1]


@model("<std::fs::File as std::io::Seek>::seek")
def m_file_seek(ctx, cty, a):
    f = deref(a[0])
    sf = a[1]
    # SeekFrom::Start(n) = variant 0
    if type(sf) is Agg and (sf.ty.endswith("SeekFrom::Start") or (sf.ty.endswith("SeekFrom") and sf.variant == 0)):
        f.pos = ctx.concretize(sf.fields[0], "seek offset")
        return res_ok(f.pos)
    raise Inconclusive("seek other than SeekFrom::Start: %r" % (sf,))


def _store_bytes(ctx, target, data):
    t = deref(target)
    if isinstance(t, StringObj):
        t.s = data
        return
    if isinstance(t, VecObj):
        t.items[:] = list(data.chars)
        return
    if isinstance(t, SliceRef):
        lst, s, e = t.lst, t.start, t.end
        if hasattr(lst, "sobj") and s == 0 and e == len(data.chars) == len(lst):
            lst.sobj.s = data
            return
        for i, c in enumerate(data.chars):
            lst[s + i] = c
        return
    raise Inconclusive("read target %r" % (t,))


def _target_len(target):
    t = deref(target)
    if isinstance(t, StringObj):
        return len(t.s.chars)
    if isinstance(t, VecObj):
        return len(t.items)
    if isinstance(t, SliceRef):
        return t.end - t.start
    raise Inconclusive("read target %r" % (t,))


@model("<std::fs::File as std::io::Read>::read_exact")
def m_file_read_exact(ctx, cty, a):
    f = deref(a[0])
    e = _find_file(ctx, f.path)
    n = _target_len(a[1])
    have = len(e[1].chars) - f.pos
    if have < n:
        return _io_err("failed to fill whole buffer")
    _store_bytes(ctx, a[1], SStr.of_chars(e[1].chars[f.pos:f.pos + n]))
    f.pos += n
    return res_ok(unit())


@model("<std::fs::File as std::io::Read>::read_to_end")
def m_file_read_to_end(ctx, cty, a):
    f = deref(a[0])
    e = _find_file(ctx, f.path)
    data = SStr.of_chars(e[1].chars[f.pos:])
    t = deref(a[1])
    if isinstance(t, StringObj):
        t.s = t.s.concat(data)
    else:
        t.items.extend(data.chars)
    f.pos = len(e[1].chars)
    return res_ok(len(data.chars))


@model("std::fs::read")
def m_fs_read(ctx, cty, a):
    e = _find_file(ctx, path_of(a[0]))
    if e is None:
        return _io_err("No such file or directory")
    return res_ok(StringObj(e[1]))


@model("std::fs::write")
def m_fs_write(ctx, cty, a):
    p = path_of(a[0])
    parent, _ = _split(ctx, p)
    if parent is None or not _is_dir(ctx, parent) or _is_dir(ctx, p):
        return _io_err("No such file or directory")
    e = _find_file(ctx, p)
    if e is None:
        _fs(ctx)["files"].append([p, bytes_of(a[1])])
    else:
        e[1] = bytes_of(a[1])
    return res_ok(unit())


@model("std::fs::read_dir")
def m_read_dir(ctx, cty, a):
    p = path_of(a[0])
    if not _is_dir(ctx, p):
        return _io_err("Not a directory" if _find_file(ctx, p) is not None else "No such file or directory")
    fs = _fs(ctx)
    out = []
    for d in fs["dirs"]:
        parent, name = _split(ctx, d)
        if parent is not None and len(name.chars) and _eq(ctx, parent, p) and not _eq(ctx, d, p):
            out.append(d)
    for e in fs["files"]:
        parent, _ = _split(ctx, e[0])
        if parent is not None and _eq(ctx, parent, p):
            out.append(e[0])
    # directory order is unspecified: canonical (creation) order, or reversed when the harness asks for deviating orders
    if ctx.opts.get("hash_order") in ("two", "all") and len(out) > 1 and nd_allowed(ctx) and ctx.choose(2, "read_dir order") == 1:
        nd_spend(ctx)
        out.reverse()
    return res_ok(seq_iter([res_ok(DirEntryObj(x)) for x in out], "read_dir"))


@model("std::fs::DirEntry::path")
def m_direntry_path(ctx, cty, a):
    return StringObj(deref(a[0]).path)


@model("std::fs::DirEntry::file_name")
def m_direntry_file_name(ctx, cty, a):
    _, name = _split(ctx, deref(a[0]).path)
    return StringObj(name)


@model("std::fs::remove_file")
def m_remove_file(ctx, cty, a):
    p = path_of(a[0])
    fs = _fs(ctx)
    for i, e in enumerate(fs["files"]):
        if _eq(ctx, e[0], p):
            del fs["files"][i]
            return res_ok(unit())
    return _io_err("No such file or directory")


# ------------------------------------------------------------------ integer conversions used next to the fs calls
@model("<usize as std::convert::TryInto>::try_into", "<u64 as std::convert::TryInto>::try_into", "<u32 as std::convert::TryInto>::try_into",
       "<i64 as std::convert::TryInto>::try_into", "<i32 as std::convert::TryInto>::try_into")
def m_try_into(ctx, cty, a):
    v = a[0]
    # target type: all uses in scope convert between 64-bit unsigned types or to a wider type
    tgt = None
    try:
        tgt = generic_arg(cty, 0).head()
    except Exception:
        pass
    if tgt in (None, "u64", "usize", "u128", "i128"):
        if type(v) is int:
            return res_ok(v) if v >= 0 else res_err(unit())
        return res_ok(v) if ctx.decide(v >= 0) else res_err(unit())
    bits = {"u8": 8, "u16": 16, "u32": 32, "i64": 63, "i32": 31, "isize": 63}.get(tgt)
    if bits is None:
        raise Inconclusive("try_into target %r" % (tgt,))
    ok = (0 <= v < (1 << bits)) if type(v) is int else ctx.decide(z3.And(v >= 0, v < (1 << bits)))
    return res_ok(v) if ok else res_err(unit())


# ------------------------------------------------------------------ flate2 (Deflate) abstracted to an invertible framing
MARK = 0xC0


@model("flate2::write::DeflateEncoder::new", "flate2::write::ZlibEncoder::new", "flate2::write::GzEncoder::new")
def m_enc_new(ctx, cty, a):
    return CodecObj(bytes_of(a[0]), "enc")


@model("<flate2::write::DeflateEncoder as std::io::Write>::write_all", "<flate2::write::ZlibEncoder as std::io::Write>::write_all")
def m_enc_write_all(ctx, cty, a):
    e = deref(a[0])
    e.data = e.data.concat(bytes_of(a[1]))
    return res_ok(unit())


@model("flate2::write::DeflateEncoder::finish", "flate2::write::ZlibEncoder::finish")
def m_enc_finish(ctx, cty, a):
    e = deref(a[0])
    return res_ok(StringObj(SStr.of_chars((MARK,) + tuple(e.data.chars))))


@model("flate2::read::DeflateDecoder::new", "flate2::read::ZlibDecoder::new")
def m_dec_new(ctx, cty, a):
    return CodecObj(bytes_of(a[0]), "dec")


@model("<flate2::read::DeflateDecoder as std::io::Read>::read_to_end", "<flate2::read::ZlibDecoder as std::io::Read>::read_to_end")
def m_dec_read_to_end(ctx, cty, a):
    d = deref(a[0])
    cs = d.data.chars
    if not cs:
        return _io_err("corrupt deflate stream")
    first = cs[0]
    ok = (first == MARK) if type(first) is int else ctx.decide(first == MARK)
    if not ok:
        return _io_err("corrupt deflate stream")
    data = SStr.of_chars(cs[1:])
    t = deref(a[1])
    if isinstance(t, StringObj):
        t.s = t.s.concat(data)
    else:
        t.items.extend(data.chars)
    return res_ok(len(data.chars))


@model("flate2::Compression::default", "<flate2::Compression as std::default::Default>::default", "flate2::Compression::new",
       "flate2::Compression::best", "flate2::Compression::fast")
def m_compression(ctx, cty, a):
    return Agg("flate2::Compression", None, [6])
