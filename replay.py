"""Replay a recorded violation natively: python3-vt replay.py <replay.json>"""
import os, sys, json
sys.path.insert(0, os.path.dirname(os.path.abspath(__file__)))
from mirsym import check
v = json.load(open(sys.argv[1]))
b = check.build_native("release")
r = check.native_run(b, v["harness"], v["params"], v["inputs"])
print(json.dumps(r, indent=1))
sys.exit(1 if r["code"] in (101, "timeout") else 0)
