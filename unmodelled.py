"""List callees in the MIR of the given crates/functions that have no model (static scan)."""
import sys, re, collections
sys.path.insert(0,'/verif')
from mirsym import engine, models as M
from mirsym.interp import Ctx
from mirsym.values import Unmodelled
mirs={c:open('/verif/.cache/%s.mir'%c).read() for c in ('melda','yavomrs','verif_harness')}
prog=engine.load_program(mirs)
ctx=Ctx(prog,M.REG,'/tmp')
pat=re.compile(sys.argv[1]) if len(sys.argv)>1 else re.compile('.')
skip=re.compile(sys.argv[2]) if len(sys.argv)>2 else None
miss=collections.Counter(); where={}
for name,f in prog.funcs.items():
    if not pat.search(name) or (skip and skip.search(name)): continue
    for b in f.blocks.values():
        t=b.term
        if t and t[0]=='call' and t[2][0]=='path':
            try: ctx.resolve(t[2][1], f)
            except Unmodelled as e:
                k=ctx.norm_key(t[2][1]); miss[k]+=1; where.setdefault(k,name)
            except Exception as e:
                miss['ERR '+t[2][1][:80]+' '+repr(e)[:80]]+=1
for k,n in sorted(miss.items()): print(n,k,'   @',where.get(k,'')[-60:])
