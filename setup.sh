#!/bin/sh
# Builds everything the checks need from files on disk (offline): MIR dump caches and the native replay binary.
set -e
cd "$(dirname "$0")"
export CARGO_NET_OFFLINE=true
python3-vt - <<'PY'
import os, sys
sys.path.insert(0, os.getcwd())
from mirsym import engine, check
engine.dump_mir(print)
print(check.build_native("release"))
print(check.build_native("dev"))
PY
