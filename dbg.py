import sys, time, json, os
HERE=os.path.dirname(os.path.abspath(__file__))
sys.path.insert(0,HERE)
sys.setrecursionlimit(20000)
from mirsym import engine
h=sys.argv[1]; params=[int(x) for x in sys.argv[2:] if not x.startswith('--')]
opts={'models_for_ok':False}
for x in sys.argv[2:]:
    if x.startswith('--'):
        k,v=x[2:].split('=') ; opts[k]=json.loads(v)
if os.environ.get('NODUMP') and os.path.exists(HERE+'/.cache/melda.mir'):
    mirs={c:open(HERE+'/.cache/%s.mir'%c).read() for c in ('melda','yavomrs','verif_harness')}
else:
    mirs=engine.dump_mir()
prog=engine.load_program(mirs)
recs,dt=engine.run_harness(prog,h,params,opts,budget_s=int(os.environ.get('BUDGET','300')))
s=engine.summarize(recs); forks=sorted(((v,k) for k,v in s['funcs'].items() if k.startswith('@fork')),reverse=True)[:12]; s['funcs']=len(s['funcs']); s['assumptions']=sorted(s['assumptions'])
print({k:v for k,v in s.items() if v}, round(dt,1))

for v,k in forks: print(v,k)
seen=set()
for r in recs:
    if r['status'] in ('ok','stats','pruned'): continue
    key=(r['status'], r.get('what') or r.get('why') or r.get('err') or r.get('msg'))
    if key in seen: continue
    seen.add(key)
    r=dict(r); tb=r.pop('tb',None); r.pop('decisions',None)
    print(json.dumps(r)[:900])
    if tb: print(tb[-500:])
    if len(seen)>=int(os.environ.get('NISSUES','4')): break
