//! C04 (+ C03-S2, C16-S2): reading returns exactly the document last submitted.
use crate::h_melda::*;
use crate::sym;
use melda::verif::utils::digest_string;
use serde_json::{json, Map, Value};

pub const PRINTABLE: usize = 4;

/// Compares what was read with what was submitted: equal except that every tracked object which carried no
/// identifier got one (a string); which identifier is not prescribed by the property.
fn same_doc(read: &Value, submitted: &Value, tracked: bool) -> bool {
    match (read, submitted) {
        (Value::Object(r), Value::Object(s)) => {
            for (k, v) in s {
                match r.get(k) {
                    Some(rv) => {
                        if !same_doc(rv, v, k.ends_with('♭')) {
                            return false;
                        }
                    }
                    None => return false,
                }
            }
            for (k, v) in r {
                if !s.contains_key(k) {
                    // only an added identifier on a tracked object is allowed
                    if !(tracked && k == "_id" && v.is_string()) {
                        return false;
                    }
                }
            }
            if tracked && !r.contains_key("_id") {
                return false;
            }
            true
        }
        (Value::Array(r), Value::Array(s)) => r.len() == s.len() && r.iter().zip(s.iter()).all(|(a, b)| same_doc(a, b, tracked)),
        _ => read == submitted,
    }
}

fn reads_back(r: &Map<String, Value>, d: &Map<String, Value>) -> bool {
    let _ = digest_string("");
    let ok = same_doc(&Value::from(r.clone()), &Value::from(d.clone()), true);
    if !ok {
        sym::debug_str("read     ", &serde_json::to_string(r).unwrap());
        sym::debug_str("submitted", &serde_json::to_string(d).unwrap());
    }
    ok
}

fn elems(ids: &[&str]) -> Value {
    Value::from(ids.iter().map(|id| json!({"_id": *id, "v": "x"})).collect::<Vec<Value>>())
}

/// variant 0: element orders of `items♭` and membership of a second array `more♭` (objects move between arrays)
/// variant 1: a flattened single object / string `meta♭` and a flattened string `s♭` appear, disappear, change kind
/// variant 2: the flattened key `more♭` changes kind between array, object, number, string and absent
fn doc(variant: i64, k: usize) -> Map<String, Value> {
    let mut m = Map::new();
    m.insert("title".to_string(), Value::from("t"));
    match variant {
        0 => {
            let o = ORDERS[sym::choose(k)];
            match sym::choose(4) {
                0 => {
                    m.insert("items♭".to_string(), elems(o));
                }
                1 => {
                    m.insert("items♭".to_string(), elems(o));
                    m.insert("more♭".to_string(), elems(&["e"]));
                }
                2 => {
                    // everything but the first element lives in the second array
                    let (head, tail) = if o.is_empty() { (o, o) } else { o.split_at(1) };
                    m.insert("items♭".to_string(), elems(head));
                    m.insert("more♭".to_string(), elems(tail));
                }
                _ => {
                    m.insert("items♭".to_string(), elems(&[]));
                    m.insert("more♭".to_string(), elems(o));
                }
            }
        }
        1 => {
            m.insert("items♭".to_string(), elems(&["a", "b"]));
            match sym::choose(4) {
                0 => {}
                1 => {
                    m.insert("meta♭".to_string(), json!({"k": "v"}));
                }
                2 => {
                    m.insert("meta♭".to_string(), Value::from(format!("^{}", sym::string(PRINTABLE, 1, 1))));
                }
                _ => {
                    m.insert("meta♭".to_string(), json!({"_id": "m", "k": "w"}));
                }
            }
            match sym::choose(3) {
                0 => {}
                1 => {
                    m.insert("s♭".to_string(), Value::from(sym::string(PRINTABLE, 1, 1)));
                }
                _ => {
                    m.insert("s♭".to_string(), Value::from("a"));
                }
            }
        }
        4 => {
            // an element whose identifier starts with '!' and a flattened string that may equal the rest of it
            let id = format!("!{}", sym::string(LOWER, 1, 1));
            m.insert("items♭".to_string(), json!([{"_id": id, "v": "x"}, {"_id": "b", "v": "y"}]));
            m.insert("a_note♭".to_string(), Value::from(sym::string(LOWER, 1, 1)));
            m.insert("z_note♭".to_string(), Value::from(format!("!{}", sym::string(LOWER, 1, 1))));
        }
        3 => {
            let sub = |x: String| json!({"bin": x});
            let items = match sym::choose(4) {
                0 => json!([{"_id": "a", "sub♭": sub("p".to_string())}, {"_id": "b"}]),
                1 => json!([{"_id": "a", "sub♭": sub("p".to_string())}, {"_id": "b", "sub♭": sub("p".to_string())}]),
                2 => json!([{"_id": "a", "sub♭": sub(sym::string(LOWER, 1, 1))}, {"_id": "b", "sub♭": sub("q".to_string())}]),
                _ => json!([{"_id": "b", "sub♭": sub("q".to_string())}, {"_id": "a"}]),
            };
            m.insert("items♭".to_string(), items);
        }
        _ => {
            m.insert("items♭".to_string(), elems(&["a"]));
            match sym::choose(6) {
                0 => {}
                1 => {
                    m.insert("more♭".to_string(), elems(&["e"]));
                }
                2 => {
                    m.insert("more♭".to_string(), elems(&[]));
                }
                3 => {
                    m.insert("more♭".to_string(), Value::from(5));
                }
                4 => {
                    m.insert("more♭".to_string(), Value::from("e"));
                }
                _ => {
                    m.insert("more♭".to_string(), json!({"_id": "e", "v": "x"}));
                }
            }
        }
    }
    m
}

/// params: [variant, k, number of prior documents (0..2), commit after each prior document (0/1)]
pub fn update_read() {
    let variant = sym::param(0);
    let k = sym::param(1) as usize;
    let prior = sym::param(2) as usize;
    let commit_prior = sym::param(3) == 1;
    let mut a = Rep::new();
    for _ in 0..prior {
        a.m.update(doc(variant, k)).expect("update (prior)");
        if commit_prior {
            a.m.commit(None).expect("commit (prior)");
        }
    }
    if sym::param(3) == 2 {
        // the earlier (never committed) submissions are discarded again
        a.m.unstage().expect("unstage");
    }
    let d = doc(variant, k);
    sym::observe_str(&serde_json::to_string(&d).unwrap());
    a.m.update(d.clone()).expect("update");
    let r = a.m.read(None).expect("read");
    assert!(reads_back(&r, &d), "read differs from the submitted document");
    // submitting the same document again changes nothing
    let st = a.m.stage().expect("stage");
    a.m.update(d.clone()).expect("update (again)");
    assert!(a.m.stage().expect("stage") == st, "re-submitting the same document staged something");
    assert!(a.m.read(None).expect("read") == r, "re-submitting the same document changed the document");
    // commit, then an idle commit writes nothing
    let staged = a.m.has_staging();
    let c = a.m.commit(None).expect("commit");
    assert!(c.is_some() == staged, "commit result does not match has_staging");
    assert!(a.m.read(None).expect("read") == r, "commit changed the document");
    let items = a.ad.read().unwrap().list_objects("").unwrap();
    assert!(a.m.commit(None).expect("idle commit").is_none(), "idle commit reported a block");
    assert!(a.ad.read().unwrap().list_objects("").unwrap() == items, "idle commit wrote to storage");
    // durability (C03): a replica opened on the same storage shows the same state
    assert!(same_state(&a.reopen(), &a.m), "reopened replica differs");
    sym::reach(1);
}

/// C16-S2: chains of successive versions of one flattened array, any cache capacity.
/// params: [k orders, chain length, 0 = commit at the end, 1 = commit after each version, 2 = commit the first two versions only, stage the rest, then unstage]
pub fn array_chain() {
    let k = sym::param(0) as usize;
    let n = sym::param(1) as usize;
    let commit_each = sym::param(2) == 1;
    let cap = sym::range(1, 3) as usize;
    sym::set_env("MELDA_ARRAYDESCRIPTORS_CACHE_CAP", cap);
    sym::set_env("MELDA_DATA_CACHE_CAP", cap);
    let a = Rep::new();
    let mut last = Map::new();
    let mut first: Option<Map<String, Value>> = None;
    for i in 0..n {
        let c = sym::choose(k + 1);
        let absent = c == k;
        let o: &[&str] = if absent { &[] } else { ORDERS[c] };
        let mut d = Map::new();
        if !absent {
            d.insert("items♭".to_string(), elems(o));
        }
        // elements that are not in the array stay alive in a second array (a removed element must not be
        // hidden from the first one merely because its object was deleted)
        let rest: Vec<&str> = ["a", "b", "c", "d"].iter().filter(|x| !o.contains(x)).cloned().collect();
        d.insert("more♭".to_string(), elems(&rest));
        a.m.update(d.clone()).expect("update");
        let r = a.m.read(None).expect("read");
        assert!(reads_back(&r, &d), "stored array version does not reconstruct to the submitted array");
        if commit_each || (sym::param(2) == 2 && i < 2) {
            a.m.commit(None).expect("commit");
            assert!(reads_back(&a.m.read(None).expect("read"), &d), "commit changed the reconstructed array");
        }
        if i == 1 || (i == 0 && n == 1) {
            first = Some(d.clone());
        }
        last = d;
    }
    if sym::param(2) == 2 {
        // versions 3..n were staged on top of the committed second version: discarding them must show it again
        if let Some(f) = &first {
            let mut a = a;
            a.m.unstage().expect("unstage");
            assert!(reads_back(&a.m.read(None).expect("read after unstage"), f), "last committed array version does not reconstruct after unstage");
            a.m.update(last.clone()).expect("update");
            assert!(reads_back(&a.m.read(None).expect("read"), &last), "array version does not reconstruct when staged again");
        }
        sym::reach(1);
        return;
    }
    a.m.commit(None).expect("commit");
    let re = a.reopen();
    assert!(reads_back(&re.read(None).expect("read after reopen"), &last), "array does not reconstruct after reopen");
    sym::reach(1);
}

/// C04 with an object in conflict whose winner is a deletion (longer branch) and whose losing leaf is live:
/// submitting the document that read() returns, twice in a row, stages the same thing once; an object that is
/// re-submitted comes back. params: []
pub fn resubmit_in_conflict() {
    let (mut a, b) = base_pair(doc_with(&["a", "b"], &["x".to_string(), "y".to_string()], "t"));
    a.m.update(doc_with(&["a", "b"], &[val(), "y".to_string()], "t")).unwrap();
    a.m.commit(None).unwrap();
    a.m.update(doc_with(&["b"], &["y".to_string()], "t")).unwrap();
    a.m.commit(None).unwrap();
    b.m.update(doc_with(&["a", "b"], &["q".to_string(), "y".to_string()], "t")).unwrap();
    b.m.commit(None).unwrap();
    a.pull(&b);
    sym::observe_bool(a.m.in_conflict().contains("a"));
    let d = a.m.read(None).expect("read");
    let mut d = d;
    d.remove("_id");
    a.m.update(d.clone()).expect("update");
    let st = a.m.stage().expect("stage");
    let r = a.m.read(None).expect("read");
    assert!(reads_back(&r, &d), "read differs from the submitted document");
    a.m.update(d.clone()).expect("update again");
    assert!(a.m.stage().expect("stage") == st, "re-submitting the same document staged something");
    assert!(a.m.read(None).expect("read") == r, "re-submitting the same document changed the document");
    let staged = a.m.has_staging();
    assert!(a.m.commit(None).expect("commit").is_some() == staged, "commit result does not match has_staging");
    assert!(a.m.commit(None).expect("idle commit").is_none(), "idle commit reported a block");
    a.m.update(d.clone()).expect("update after commit");
    assert!(!a.m.has_staging(), "submitting the committed document again staged something");
    sym::reach(1);
}

/// An observer that read an array earlier receives several later versions in one synchronisation (its cache holds an
/// ancestor two or more revisions above). Cache capacities symbolic 1..3. params: [k orders, versions after the first read]
pub fn observer_chain() {
    let k = sym::param(0) as usize;
    let n = sym::param(1) as usize;
    let cap = sym::range(1, 3) as usize;
    sym::set_env("MELDA_ARRAYDESCRIPTORS_CACHE_CAP", cap);
    sym::set_env("MELDA_DATA_CACHE_CAP", cap);
    let w = Rep::new();
    let mut o = Rep::new();
    let mk = |o: &[&str]| {
        let mut d = Map::new();
        d.insert("items♭".to_string(), elems(o));
        let rest: Vec<&str> = ["a", "b", "c", "d"].iter().filter(|x| !o.contains(x)).cloned().collect();
        d.insert("more♭".to_string(), elems(&rest));
        d
    };
    w.m.update(mk(ORDERS[11])).unwrap();
    w.m.commit(None).unwrap();
    w.m.update(mk(ORDERS[sym::choose(k)])).unwrap();
    w.m.commit(None).unwrap();
    o.pull(&w);
    let _ = o.m.read(None).expect("observer read");
    let mut last = Map::new();
    for _ in 0..n {
        last = mk(ORDERS[sym::choose(k)]);
        w.m.update(last.clone()).unwrap();
        w.m.commit(None).unwrap();
    }
    o.pull(&w);
    let r = o.m.read(None).expect("observer read after sync");
    assert!(r == w.m.read(None).unwrap(), "a warm observer reconstructs a different array than the writer");
    assert!(reads_back(&r, &last), "a warm observer does not reconstruct the last submitted array");
    assert!(o.reopen().read(None).unwrap() == r, "a cold replica on the same storage reads a different document");
    sym::reach(1);
}
