//! C07: resolving a conflict adopts the chosen revision and propagates.
use crate::h_melda::*;
use crate::sym;
use serde_json::{Map, Value};

fn is_deletion(rev: &str) -> bool {
    // "<index>-d_<tail>"
    match rev.split_once('-') {
        Some((_, rest)) => rest.starts_with("d_"),
        None => false,
    }
}

/// document with elements a and b; `keep_a` false removes a
fn doc(keep_a: bool, va: &str, vb: &str) -> Map<String, Value> {
    if keep_a {
        doc_with(&["a", "b"], &[va.to_string(), vb.to_string()], "t")
    } else {
        doc_with(&["b"], &[vb.to_string()], "t")
    }
}

fn item_ids(d: &Map<String, Value>) -> Vec<String> {
    d.get("items♭").and_then(|v| v.as_array()).map(|a| a.iter().map(|o| o["_id"].as_str().unwrap().to_string()).collect()).unwrap_or_default()
}

/// one concurrent edit of object `a` per replica: update to a symbolic value or deletion
fn edit(r: &Rep) {
    if sym::param(0) == 2 && sym::any_bool() {
        // an ordinary object that happens to carry a user field named like the deletion marker
        let mut d = doc(true, "x", "y");
        if let Some(serde_json::Value::Array(items)) = d.get_mut("items♭") {
            items[0].as_object_mut().unwrap().insert("_deleted".to_string(), serde_json::Value::from(false));
            items[0].as_object_mut().unwrap().insert("v".to_string(), serde_json::Value::from(val()));
        }
        r.m.update(d).expect("update");
        r.m.commit(None).expect("commit").expect("edit produced no block");
        return;
    }
    if sym::any_bool() {
        let v = val();
        sym::assume(v != "x");
        r.m.update(doc(true, &v, "y")).expect("update");
    } else {
        r.m.update(doc(false, "", "y")).expect("update (delete a)");
    }
    r.m.commit(None).expect("commit").expect("edit produced no block");
}

/// params: [mode] mode 0: resolve on one replica and propagate; mode 1: independent resolutions on both
pub fn resolve_object() {
    let mode = sym::param(0);
    let (mut a, mut b) = base_pair(doc(true, "x", "y"));
    edit(&a);
    edit(&b);
    a.pull(&b);
    if !a.m.in_conflict().contains("a") {
        // identical concurrent edits are the same revision: nothing to resolve
        sym::reach(2);
        return;
    }
    let winner = a.m.get_winner("a").expect("winner");
    let mut leaves: Vec<String> = a.m.get_conflicting("a").expect("conflicting").into_iter().collect();
    assert!(!leaves.contains(&winner), "winner listed among the conflicting revisions");
    leaves.push(winner.clone());
    let chosen = leaves[sym::choose(leaves.len())].clone();
    sym::observe_bool(is_deletion(&chosen));
    sym::observe_bool(chosen == winner);
    let value_at_chosen = a.m.get_value("a", Some(&chosen)).expect("value at chosen revision");
    let doc_before = a.m.read(None).expect("read before");
    let new_winner = a.m.resolve_as("a", &chosen).expect("resolve_as");
    assert!(!a.m.in_conflict().contains("a"), "object still in conflict after resolve_as");
    assert!(a.m.get_winner("a").unwrap() == new_winner, "resolve_as reports a different winner");
    assert!(a.m.get_conflicting("a").unwrap().is_empty(), "conflicting revisions remain after resolve_as");
    let doc_after = a.m.read(None).expect("read after");
    if is_deletion(&chosen) {
        assert!(is_deletion(&new_winner), "resolved towards a deletion but the winner is not a deletion");
        assert!(!item_ids(&doc_after).contains(&"a".to_string()), "object resolved as deleted is still in the document");
    } else {
        assert!(a.m.get_value("a", None).unwrap() == value_at_chosen, "visible value differs from the chosen revision");
    }
    if chosen == winner {
        assert!(doc_after == doc_before, "choosing the current winner changed the document");
    }
    a.m.commit(None).expect("commit resolution").expect("resolution produced no block");
    assert!(doc_text(&a.m) == serde_json::to_string(&doc_after).unwrap(), "commit changed the resolved document");
    let _ = mode;
    b.pull(&a);
    assert!(state(&b.m) == state(&a.m), "resolution did not propagate: replicas differ");
    sym::reach(1);
}

/// Two live leaves with the same content digest: one replica reaches the final content (or the deletion) through an
/// intermediate edit, the other directly. The object is in conflict, exactly one losing revision is listed, every
/// leaf can be chosen, and the resolution propagates.
pub fn same_digest_leaves() {
    let (mut a, mut b) = base_pair(doc(true, "x", "y"));
    let deletions = sym::any_bool();
    a.m.update(doc(true, "m", "y")).expect("update");
    a.m.commit(None).expect("commit").expect("block");
    let last = if deletions { doc(false, "", "y") } else { doc(true, "z", "y") };
    a.m.update(last.clone()).expect("update");
    a.m.commit(None).expect("commit").expect("block");
    b.m.update(last).expect("update");
    b.m.commit(None).expect("commit").expect("block");
    a.pull(&b);
    let _ = state(&a.m);
    assert!(a.m.in_conflict().contains("a"), "two different live leaves but no conflict reported");
    let winner = a.m.get_winner("a").expect("winner");
    let losers: Vec<String> = a.m.get_conflicting("a").expect("conflicting").into_iter().collect();
    assert!(losers.len() == 1 && losers[0] != winner, "the losing live leaf is not listed as conflicting");
    let chosen = if sym::any_bool() { winner.clone() } else { losers[0].clone() };
    let before = a.m.read(None).expect("read");
    a.m.resolve_as("a", &chosen).expect("resolve_as");
    assert!(!a.m.in_conflict().contains("a"), "object still in conflict after resolve_as");
    assert!(a.m.get_conflicting("a").unwrap().is_empty(), "conflicting revisions remain after resolve_as");
    assert!(a.m.read(None).unwrap() == before, "resolving between leaves with the same content changed the document");
    a.m.commit(None).expect("commit").expect("resolution produced no block");
    b.pull(&a);
    assert!(state(&b.m) == state(&a.m), "resolution did not propagate: replicas differ");
    sym::reach(1);
}

/// both replicas see the conflict and resolve it independently (same or different choice), then exchange
pub fn resolve_both() {
    let (mut a, mut b) = base_pair(doc(true, "x", "y"));
    edit(&a);
    edit(&b);
    let a0 = a.snapshot();
    a.pull(&b);
    b.pull(&a0);
    if !a.m.in_conflict().contains("a") {
        sym::reach(2);
        return;
    }
    assert!(b.m.in_conflict().contains("a"), "conflict visible on one replica only");
    for r in [&a, &b] {
        let w = r.m.get_winner("a").unwrap();
        let mut leaves: Vec<String> = r.m.get_conflicting("a").unwrap().into_iter().collect();
        leaves.push(w);
        let chosen = leaves[sym::choose(leaves.len())].clone();
        r.m.resolve_as("a", &chosen).expect("resolve_as");
        r.m.commit(None).expect("commit resolution").expect("resolution produced no block");
    }
    let a1 = a.snapshot();
    a.pull(&b);
    b.pull(&a1);
    a.pull(&b);
    assert!(state(&a.m) == state(&b.m), "independent resolutions do not converge");
    sym::reach(1);
}

/// three concurrent edits of object `a` (two updates to different values and one update-or-deletion) give up to
/// three live leaves; every leaf is chosen; the resolution propagates. params: []
pub fn resolve_three() {
    let (mut a, mut b) = base_pair(doc(true, "x", "y"));
    let mut c = Rep::new();
    c.pull(&a);
    a.m.update(doc(true, "p", "y")).expect("update a");
    a.m.commit(None).expect("commit a");
    b.m.update(doc(true, "q", "y")).expect("update b");
    b.m.commit(None).expect("commit b");
    edit(&c);
    a.pull(&b);
    a.pull(&c);
    let winner = a.m.get_winner("a").expect("winner");
    let mut leaves: Vec<String> = a.m.get_conflicting("a").expect("conflicting").into_iter().collect();
    leaves.push(winner.clone());
    sym::observe_i64(leaves.len() as i64);
    assert!(leaves.len() >= 2, "concurrent different edits did not conflict");
    let chosen = leaves[sym::choose(leaves.len())].clone();
    let value_at_chosen = a.m.get_value("a", Some(&chosen)).expect("value at chosen revision");
    a.m.resolve_as("a", &chosen).expect("resolve_as");
    assert!(!a.m.in_conflict().contains("a"), "object still in conflict after resolve_as");
    assert!(a.m.get_conflicting("a").unwrap().is_empty(), "conflicting revisions remain after resolve_as");
    if is_deletion(&chosen) {
        assert!(is_deletion(&a.m.get_winner("a").unwrap()), "resolved towards a deletion but the winner is not a deletion");
    } else {
        assert!(a.m.get_value("a", None).unwrap() == value_at_chosen, "visible value differs from the chosen revision");
    }
    a.m.commit(None).expect("commit resolution").expect("resolution produced no block");
    b.pull(&a);
    c.pull(&a);
    assert!(same_state(&b.m, &a.m), "resolution did not propagate to the second replica");
    assert!(same_state(&c.m, &a.m), "resolution did not propagate to the third replica");
    assert!(b.m.in_conflict().is_empty() || !b.m.in_conflict().contains("a"), "conflict reappears on a receiving replica");
    sym::reach(1);
}
