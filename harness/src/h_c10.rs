//! C10: stored items are trusted only if their content matches their name.
use crate::h_melda::*;
use crate::sym;
use melda::melda::Melda;

pub const DIGIT: usize = 3;
pub const WORD: usize = 2;
pub const BYTE: usize = 5;

/// storage after two commits on one replica; returns (adapter, state after commit 1, state after commit 2, items of commit 1, items of commit 2)
fn two_commits() -> (Ad, String, String, Vec<String>, Vec<String>) {
    let a = Rep::new();
    a.m.update(doc_with(&["a", "b"], &["x".to_string(), "y".to_string()], "t")).unwrap();
    a.m.commit(None).unwrap().unwrap();
    let items1 = a.ad.read().unwrap().list_objects("").unwrap();
    let s1 = state(&a.reopen());
    a.m.update(doc_with(&["b", "a", "c"], &["y".to_string(), "x2".to_string(), "z".to_string()], "t2")).unwrap();
    a.m.commit(None).unwrap().unwrap();
    let all = a.ad.read().unwrap().list_objects("").unwrap();
    let items2: Vec<String> = all.into_iter().filter(|k| !items1.contains(k)).collect();
    let s2 = state(&a.reopen());
    (a.ad.clone(), s1, s2, items1, items2)
}

/// copy of a storage with item `skip` left out and optionally replaced by `with`
fn copy_storage(src: &Ad, skip: Option<&str>, with: Option<&[u8]>) -> Ad {
    let dst = new_adapter();
    {
        let s = src.read().unwrap();
        let d = dst.write().unwrap();
        for k in s.list_objects("").unwrap() {
            if Some(k.as_str()) == skip {
                if let Some(bytes) = with {
                    d.write_object(&k, bytes).unwrap();
                }
            } else {
                d.write_object(&k, &s.read_object(&k, 0, 0).unwrap()).unwrap();
            }
        }
    }
    dst
}

fn empty_state() -> String {
    state(&Rep::new().m)
}

fn open_state(ad: &Ad) -> Option<String> {
    match Melda::new(ad.clone()) {
        Ok(m) => {
            // an incremental refresh of a replica opened before must agree as well
            Some(state(&m))
        }
        Err(_) => None,
    }
}

/// A block whose bytes do hash to its name but whose parent list holds an entry that is not a block identifier
/// (crafted from a real block): it can never be causally complete, so it must not take effect - on reopening and on
/// an incremental refresh of a live replica.
pub fn crafted_block() {
    use melda::melda::DeltaId;
    use melda::verif::utils::digest_string;
    let (ad, _s1, s2, _i1, items2) = two_commits();
    let bk = items2.iter().find(|k| k.ends_with(".delta")).expect("second block").clone();
    let id = DeltaId::from(bk.strip_suffix(".delta").unwrap()).expect("block id");
    let bytes = ad.read().unwrap().read_object(&bk, 0, 0).unwrap();
    let mut j: serde_json::Value = serde_json::from_slice(&bytes).expect("block is JSON");
    let extra = match sym::choose(3) {
        0 => serde_json::Value::from(17),
        1 => serde_json::Value::from("zz"),
        _ => serde_json::Value::Null,
    };
    j.get_mut("p").and_then(|p| p.as_array_mut()).expect("parent list").push(extra);
    // some other difference so that the crafted block is not the original one
    j.as_object_mut().unwrap().insert("i".to_string(), serde_json::json!({"note": "crafted"}));
    let text = serde_json::to_string(&j).unwrap();
    let name = format!("{}-{}.delta", id.index(), digest_string(&text));
    let mut live = Melda::new(ad.clone()).expect("Melda::new");
    ad.write().unwrap().write_object(&name, text.as_bytes()).unwrap();
    if let Some(s) = open_state(&ad) {
        assert!(s == s2, "a block with an unresolvable parent entry took effect on reopening");
    }
    if live.refresh().is_ok() {
        assert!(state(&live) == s2, "a block with an unresolvable parent entry took effect on refresh");
    }
    sym::reach(1);
}

/// a junk item with a block / pack extension and a symbolic ASCII name is injected. params: [max digits]
pub fn junk_item() {
    let maxd = sym::param(0) as usize;
    let (ad, _s1, s2, _i1, _i2) = two_commits();
    let name = match sym::choose(4) {
        0 => format!("{}-{}.delta", sym::string(DIGIT, 1, maxd), sym::string(WORD, 1, 2)),
        1 => format!("{}.delta", sym::string(WORD, 1, 3)),
        2 => format!("{}.pack", sym::string(WORD, 1, 3)),
        _ => format!("{}-{}_{}.delta", sym::string(DIGIT, 1, 2), sym::string(WORD, 1, 1), sym::string(WORD, 1, 1)),
    };
    sym::observe_str(&name);
    let content = sym::string(BYTE_OR_JSON, 0, 2);
    ad.write().unwrap().write_object(&name, content.as_bytes()).unwrap();
    if let Some(s) = open_state(&ad) {
        assert!(s == s2, "a junk item changed the visible state");
    }
    // a replica that was already open refreshes over the junk
    sym::reach(1);
}

pub const BYTE_OR_JSON: usize = 7;

/// one stored item is altered (one byte replaced by a different byte, truncated, emptied) or removed.
/// params: [which item (index into the 4 items), kind of damage]
pub fn damaged_item() {
    let (ad, s1, s2, items1, items2) = two_commits();
    let mut items = items1.clone();
    items.extend(items2.iter().cloned());
    assert!(items.len() == 4, "expected two blocks and two packs");
    let which = sym::choose(items.len());
    let key = items[which].clone();
    let original = ad.read().unwrap().read_object(&key, 0, 0).unwrap();
    let damage = sym::choose(6);
    if damage == 5 {
        // the item is stored under a name with a different index / a different digest character (renamed)
        let bad = copy_storage(&ad, Some(&key), None);
        let renamed = if key.ends_with(".delta") {
            match key.split_once('-') {
                Some((idx, rest)) => format!("{}-{}", idx.parse::<u32>().unwrap() + 1, rest),
                None => key.clone(),
            }
        } else {
            let (first, rest) = key.split_at(1);
            format!("{}{}", if first == "0" { "1" } else { "0" }, rest)
        };
        bad.write().unwrap().write_object(&renamed, &original).unwrap();
        let expected = if items1.contains(&key) { empty_state() } else { s1.clone() };
        if let Some(s) = open_state(&bad) {
            assert!(s == expected, "an item stored under a name that does not match its content was trusted");
        }
        sym::reach(1);
        return;
    }
    let damaged: Option<Vec<u8>> = match damage {
        0 => None, // removed
        1 => Some(Vec::new()), // emptied
        2 => Some(original[..original.len() - 1].to_vec()), // truncated by one byte
        3 => Some(original[..original.len() / 2].to_vec()), // truncated to half
        _ => {
            // one byte replaced by a different (symbolic) byte at the start, middle or end
            let pos = match sym::choose(3) {
                0 => 0,
                1 => original.len() / 2,
                _ => original.len() - 1,
            };
            let nb = sym::any_u8();
            sym::assume(nb != original[pos]);
            let mut c = original.clone();
            c[pos] = nb;
            Some(c)
        }
    };
    sym::observe_str(&key);
    sym::observe_i64(damage as i64);
    let bad = copy_storage(&ad, Some(&key), damaged.as_deref());
    // the state derived from the intact, causally complete subset
    let expected = if items1.contains(&key) { empty_state() } else { s1.clone() };
    let _ = &s2;
    if let Some(s) = open_state(&bad) {
        assert!(s == expected, "a damaged or missing item influenced the visible state");
    }
    sym::reach(1);
}

/// merge history c1 <- cA (a), c1 <- cB (b), {cA, cB} <- cM: one stored item is removed or has one byte replaced;
/// the replica opened on it shows exactly the state of the largest intact, causally complete set of blocks.
pub fn damaged_merge() {
    use melda::melda::DeltaId;
    let a = Rep::new();
    a.m.update(doc_with(&["a", "b"], &["x".to_string(), "y".to_string()], "t")).unwrap();
    let c1: DeltaId = a.m.commit(None).unwrap().unwrap().into_iter().next().unwrap();
    let s1 = state(&a.m);
    let mut b = Rep::new();
    b.pull(&a);
    a.m.update(doc_with(&["a", "b", "c"], &["x".to_string(), "y".to_string(), "z".to_string()], "t")).unwrap();
    let ca: DeltaId = a.m.commit(None).unwrap().unwrap().into_iter().next().unwrap();
    let s_a = state(&a.m);
    b.m.update(doc_with(&["b", "a"], &["y".to_string(), "w".to_string()], "t")).unwrap();
    let cb: DeltaId = b.m.commit(None).unwrap().unwrap().into_iter().next().unwrap();
    let s_b = state(&b.m);
    let mut a = a;
    a.pull(&b);
    let s_ab = state(&a.m);
    let mut d = a.m.read(None).unwrap();
    d.insert("x".to_string(), serde_json::Value::from(1));
    a.m.update(d).unwrap();
    let cm: DeltaId = a.m.commit(None).unwrap().unwrap().into_iter().next().unwrap();
    // items of each block
    let items_of = |id: &DeltaId| -> Vec<String> {
        let dl = a.m.get_delta(id).unwrap().unwrap();
        let mut v = vec![id.to_string() + ".delta"];
        v.extend(dl.packs.clone().unwrap_or_default().into_iter().map(|p| p + ".pack"));
        v
    };
    let groups = [(items_of(&c1), empty_state()), (items_of(&ca), s_b.clone()), (items_of(&cb), s_a.clone()), (items_of(&cm), s_ab.clone())];
    let _ = &s1;
    let g = sym::choose(groups.len());
    let key = groups[g].0[sym::choose(groups[g].0.len())].clone();
    let expected = groups[g].1.clone();
    let original = a.ad.read().unwrap().read_object(&key, 0, 0).unwrap();
    let damaged: Option<Vec<u8>> = if sym::any_bool() {
        None
    } else {
        let pos = original.len() / 2;
        let nb = sym::any_u8();
        sym::assume(nb != original[pos]);
        let mut c = original.clone();
        c[pos] = nb;
        Some(c)
    };
    sym::observe_str(&key);
    let bad = copy_storage(&a.ad, Some(&key), damaged.as_deref());
    if let Some(s) = open_state(&bad) {
        if s != expected {
            sym::debug_str("shown   ", &s);
            sym::debug_str("expected", &expected);
        }
        assert!(s == expected, "a damaged or missing item influenced the visible state");
    }
    // the same through the incremental route: a live replica that holds the base block receives everything else at once
    if g != 0 {
        let mut t = Rep::new();
        for f in &groups[0].0 {
            t.ad.write().unwrap().write_object(f, &a.ad.read().unwrap().read_object(f, 0, 0).unwrap()).unwrap();
        }
        t.m.refresh().expect("refresh (base)");
        {
            let src = bad.read().unwrap();
            for f in src.list_objects("").unwrap() {
                t.ad.write().unwrap().write_object(&f, &src.read_object(&f, 0, 0).unwrap()).unwrap();
            }
        }
        if t.m.refresh().is_ok() {
            assert!(state(&t.m) == expected, "incremental refresh over a damaged storage does not show the state of the intact blocks");
        }
    }
    sym::reach(1);
}

// ---- damage under a live replica (incremental refresh path)
use anyhow::{anyhow, Result};
use melda::adapter::Adapter;
use std::any::Any;
use std::collections::BTreeMap;
use std::sync::{Arc, Mutex, RwLock};

/// write-once backend like MemoryAdapter whose map the harness can reach to damage an item in place
pub struct SharedStore {
    map: Arc<Mutex<BTreeMap<String, Vec<u8>>>>,
}

impl Adapter for SharedStore {
    fn as_any(&self) -> &dyn Any {
        self
    }
    fn as_any_mut(&mut self) -> &mut dyn Any {
        self
    }
    fn read_object(&self, key: &str, offset: usize, length: usize) -> Result<Vec<u8>> {
        let m = self.map.lock().unwrap();
        let d = m.get(key).ok_or_else(|| anyhow!("object not found"))?;
        if offset == 0 && length == 0 {
            Ok(d.clone())
        } else if offset + length > d.len() {
            Err(anyhow!("invalid slice range"))
        } else {
            Ok(d[offset..offset + length].to_vec())
        }
    }
    fn write_object(&self, key: &str, data: &[u8]) -> Result<()> {
        let mut m = self.map.lock().unwrap();
        if !m.contains_key(key) {
            m.insert(key.to_string(), data.to_vec());
        }
        Ok(())
    }
    fn list_objects(&self, ext: &str) -> Result<Vec<String>> {
        Ok(self.map.lock().unwrap().keys().filter(|k| k.ends_with(ext)).map(|k| k[..k.len() - ext.len()].to_string()).collect())
    }
}

/// A live replica refreshes while files arrive; an item that was already seen by an earlier refresh is damaged in
/// place before the block depending on it becomes applicable. The damaged item must not be trusted.
/// A pack that a live replica first sees damaged (half copied, or one byte wrong) and that is complete at a later
/// refresh: the replica must end up with the full state, like a replica opened on the storage, and not stay stuck.
pub fn repaired_damage() {
    let (src, s1, s2, items1, items2) = two_commits();
    let map = Arc::new(Mutex::new(BTreeMap::new()));
    let ad: Ad = Arc::new(RwLock::new(Box::new(SharedStore { map: map.clone() })));
    let get = |k: &str| src.read().unwrap().read_object(k, 0, 0).unwrap();
    for k in &items1 {
        ad.write().unwrap().write_object(k, &get(k)).unwrap();
    }
    let mut t = Melda::new(ad.clone()).expect("Melda::new");
    assert!(state(&t) == s1, "first commit not applied");
    let first = items2.iter().position(|k| k.ends_with(".pack")).expect("second commit wrote a pack");
    let k1 = items2[first].clone();
    let orig = get(&k1);
    let damaged: Vec<u8> = if sym::any_bool() {
        orig[..orig.len() / 2].to_vec()
    } else {
        let mut c = orig.clone();
        let pos = c.len() / 2;
        let nb = sym::any_u8();
        sym::assume(nb != c[pos]);
        c[pos] = nb;
        c
    };
    map.lock().unwrap().insert(k1.clone(), damaged);
    let block_first = sym::any_bool();
    if block_first {
        for (i, k) in items2.iter().enumerate() {
            if i != first {
                ad.write().unwrap().write_object(k, &get(k)).unwrap();
            }
        }
    }
    if t.refresh().is_ok() {
        assert!(state(&t) == s1, "a block was applied although its pack is damaged");
    }
    // the copy completes
    map.lock().unwrap().insert(k1.clone(), orig);
    if !block_first {
        for (i, k) in items2.iter().enumerate() {
            if i != first {
                ad.write().unwrap().write_object(k, &get(k)).unwrap();
            }
        }
    }
    t.refresh().expect("refresh after the damaged pack was completed");
    assert!(state(&Melda::new(ad.clone()).expect("reopen")) == s2, "a replica opened on the repaired storage does not show the full state");
    assert!(state(&t) == s2, "the live replica stays behind after the damaged pack was completed");
    sym::reach(1);
}

/// A live replica that has read (and verified) every object reads them again after one byte of the pack was replaced
/// in place: each read fails or returns the value read before, never altered content (object cache capacity 1, so the
/// values come from storage again).
pub fn live_read_damage() {
    sym::set_env("MELDA_DATA_CACHE_CAP", 1);
    let (src, s1, _s2, items1, _items2) = two_commits();
    let map = Arc::new(Mutex::new(BTreeMap::new()));
    let ad: Ad = Arc::new(RwLock::new(Box::new(SharedStore { map: map.clone() })));
    for k in &items1 {
        ad.write().unwrap().write_object(k, &src.read().unwrap().read_object(k, 0, 0).unwrap()).unwrap();
    }
    let mut t = Melda::new(ad.clone()).expect("Melda::new");
    assert!(state(&t) == s1, "first commit not applied");
    let mut ids: Vec<String> = t.get_all_objects().into_iter().collect();
    ids.sort();
    let before: Vec<Option<serde_json::Map<String, serde_json::Value>>> = ids.iter().map(|id| t.get_value(id, None).ok()).collect();
    let k1 = items1.iter().find(|k| k.ends_with(".pack")).expect("first commit wrote a pack").clone();
    {
        let mut m = map.lock().unwrap();
        let mut c: Vec<u8> = m.get(&k1).unwrap().clone();
        let pos = sym::choose(c.len());
        let nb = sym::any_u8();
        sym::assume(nb != c[pos]);
        c[pos] = nb;
        m.insert(k1.clone(), c);
    }
    let _ = t.refresh();
    for (i, id) in ids.iter().enumerate() {
        if let Ok(v) = t.get_value(id, None) {
            assert!(Some(v) == before[i], "altered stored content was exposed by a read");
        }
    }
    sym::reach(1);
}

pub fn live_damage() {
    let (src, s1, s2, items1, items2) = two_commits();
    let map = Arc::new(Mutex::new(BTreeMap::new()));
    let ad: Ad = Arc::new(RwLock::new(Box::new(SharedStore { map: map.clone() })));
    let mut t = Melda::new(ad.clone()).expect("Melda::new");
    let get = |k: &str| src.read().unwrap().read_object(k, 0, 0).unwrap();
    // first commit arrives completely
    for k in &items1 {
        ad.write().unwrap().write_object(k, &get(k)).unwrap();
    }
    t.refresh().expect("refresh");
    assert!(state(&t) == s1, "first commit not applied");
    // of the second commit the pack arrives first and is indexed by a refresh (a block that was read and verified
    // earlier is legitimately kept in memory; packs are re-read from storage when they are used)
    let first = items2.iter().position(|k| k.ends_with(".pack")).expect("second commit wrote a pack");
    let k1 = items2[first].clone();
    ad.write().unwrap().write_object(&k1, &get(&k1)).unwrap();
    t.refresh().expect("refresh");
    assert!(state(&t) == s1, "an incomplete commit took effect");
    // it is then damaged in place (one byte replaced, truncated, or removed)
    {
        let mut m = map.lock().unwrap();
        let orig = m.get(&k1).unwrap().clone();
        match sym::choose(3) {
            0 => {
                m.remove(&k1);
            }
            1 => {
                m.insert(k1.clone(), orig[..orig.len() / 2].to_vec());
            }
            _ => {
                let pos = orig.len() / 2;
                let nb = sym::any_u8();
                sym::assume(nb != orig[pos]);
                let mut c = orig.clone();
                c[pos] = nb;
                m.insert(k1.clone(), c);
            }
        }
    }
    // the rest of the second commit arrives
    for (i, k) in items2.iter().enumerate() {
        if i != first {
            ad.write().unwrap().write_object(k, &get(k)).unwrap();
        }
    }
    match t.refresh() {
        Ok(()) => assert!(state(&t) == s1, "a block was applied although an item it depends on is damaged"),
        Err(_) => {}
    }
    let _ = s2;
    sym::reach(1);
}
