//! Symbolic-input API. Under mirsym every function here is an intrinsic (its body is never
//! executed); compiled natively the functions read the concrete input vector of a replay file.
use serde_json::Value;
use std::cell::RefCell;

thread_local! {
    static INPUT: RefCell<Vec<Value>> = RefCell::new(Vec::new());
    static PARAMS: RefCell<Vec<i64>> = RefCell::new(Vec::new());
    static POS: RefCell<usize> = RefCell::new(0);
    static OBS: RefCell<Vec<Value>> = RefCell::new(Vec::new());
    static REACHED: RefCell<Vec<i64>> = RefCell::new(Vec::new());
}

pub fn set_input(params: Vec<i64>, v: Vec<Value>) {
    INPUT.with(|i| *i.borrow_mut() = v);
    PARAMS.with(|i| *i.borrow_mut() = params);
    POS.with(|p| *p.borrow_mut() = 0);
}

pub fn take_observations() -> (Vec<Value>, Vec<i64>) {
    (OBS.with(|o| o.borrow().clone()), REACHED.with(|o| o.borrow().clone()))
}

fn next() -> Value {
    let p = POS.with(|p| {
        let mut p = p.borrow_mut();
        *p += 1;
        *p - 1
    });
    INPUT.with(|i| i.borrow().get(p).cloned()).unwrap_or_else(|| {
        eprintln!("replay input exhausted");
        std::process::exit(4)
    })
}

fn next_int() -> i128 {
    let v = next();
    if let Some(i) = v.as_i64() {
        i as i128
    } else if let Some(u) = v.as_u64() {
        u as i128
    } else if let Some(b) = v.as_bool() {
        b as i128
    } else {
        eprintln!("replay input: expected integer, got {}", v);
        std::process::exit(4)
    }
}

#[inline(never)]
pub fn param(i: usize) -> i64 {
    PARAMS.with(|p| p.borrow().get(i).copied().unwrap_or(0))
}
#[inline(never)]
pub fn any_i64() -> i64 {
    next_int() as i64
}
#[inline(never)]
pub fn any_u32() -> u32 {
    next_int() as u32
}
#[inline(never)]
pub fn any_u8() -> u8 {
    next_int() as u8
}
#[inline(never)]
pub fn any_bool() -> bool {
    next_int() != 0
}
/// integer in [lo, hi]
#[inline(never)]
pub fn range(_lo: i64, _hi: i64) -> i64 {
    next_int() as i64
}
/// concrete choice in [0, n)
#[inline(never)]
pub fn choose(_n: usize) -> usize {
    next_int() as usize
}
/// abstract element: a JSON number whose identity is decided by the solver
#[inline(never)]
pub fn atom() -> Value {
    Value::from(next_int() as i64)
}
/// string over character class `class` with length in [min, max].
/// The replay file stores the bytes as a latin-1 string.
#[inline(never)]
pub fn string(_class: usize, _min: usize, _max: usize) -> String {
    let v = next();
    let s = v.as_str().unwrap_or_else(|| {
        eprintln!("replay input: expected string");
        std::process::exit(4)
    });
    let bytes: Vec<u8> = s.chars().map(|c| c as u32 as u8).collect();
    match String::from_utf8(bytes) {
        Ok(s) => s,
        Err(_) => {
            eprintln!("replay input: not valid UTF-8");
            std::process::exit(3)
        }
    }
}
#[inline(never)]
pub fn assume(c: bool) {
    if !c {
        std::process::exit(3);
    }
}
#[inline(never)]
pub fn reach(k: i64) {
    REACHED.with(|r| r.borrow_mut().push(k));
}
#[inline(never)]
pub fn observe_i64(x: i64) {
    OBS.with(|o| o.borrow_mut().push(Value::from(x)));
}
#[inline(never)]
pub fn observe_bool(x: bool) {
    OBS.with(|o| o.borrow_mut().push(Value::from(x as i64)));
}
#[inline(never)]
pub fn observe_str(x: &str) {
    let latin1: String = x.as_bytes().iter().map(|b| *b as char).collect();
    OBS.with(|o| o.borrow_mut().push(Value::from(latin1)));
}
/// a directory that does not exist yet and is private to this run (natively: taken from VERIF_SCRATCH, which the
/// driver creates and removes; under mirsym: a path in the modelled file system)
#[inline(never)]
pub fn scratch_dir() -> String {
    match std::env::var("VERIF_SCRATCH") {
        Ok(d) => d,
        Err(_) => std::env::temp_dir().join(format!("verif-scratch-{}", std::process::id())).to_str().unwrap().to_string(),
    }
}
#[inline(never)]
pub fn set_env(key: &str, v: usize) {
    std::env::set_var(key, v.to_string());
}
/// iteration order explored for hash tables from here on: 0 = one order, 1 = forward and reverse,
/// 2 = all permutations (natively a no-op: std randomises per table)
#[inline(never)]
pub fn hash_order(_mode: usize) {}
/// diagnostic output of the native replay (no effect under mirsym)
#[inline(never)]
pub fn debug_str(label: &str, x: &str) {
    eprintln!("DEBUG {}: {}", label, x);
}
/// order in which the (sequentialised) worker pool visits the elements of a parallel iterator from here on:
/// 0 = canonical, 1 = forward and reverse, 2 = all permutations (natively a no-op)
#[inline(never)]
pub fn par_order(_mode: usize) {}
