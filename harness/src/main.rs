//! Native replay: `replay <harness> <input.json>` runs the harness on a concrete input.
//! exit 0 = completed, 101 = panic (the assertion / library panic reproduced), 3 = outside the
//! harness precondition, 4 = malformed input.
use serde_json::Value;

fn main() {
    let args: Vec<String> = std::env::args().collect();
    if args.len() < 3 {
        eprintln!("usage: replay <harness> <input.json>");
        std::process::exit(4);
    }
    let txt = std::fs::read_to_string(&args[2]).expect("read input");
    let v: Value = serde_json::from_str(&txt).expect("parse input");
    let params: Vec<i64> = v["params"].as_array().map(|a| a.iter().map(|x| x.as_i64().unwrap()).collect()).unwrap_or_default();
    let inputs: Vec<Value> = v["inputs"].as_array().cloned().unwrap_or_default();
    verif_harness::sym::set_input(params, inputs);
    let name = args[1].clone();
    let r = std::panic::catch_unwind(move || verif_harness::dispatch(&name));
    let (obs, reached) = verif_harness::sym::take_observations();
    println!("OBS {}", serde_json::to_string(&serde_json::json!({"obs": obs, "reached": reached})).unwrap());
    match r {
        Ok(true) => {}
        Ok(false) => {
            eprintln!("unknown harness");
            std::process::exit(4)
        }
        Err(_) => std::process::exit(101),
    }
}
