//! C16 / kernel: make_diff_patch then apply_diff_patch reconstructs the new array.
use crate::sym;
use melda::verif::utils::{apply_diff_patch, make_diff_patch};
use serde_json::Value;

/// params: [len(old), len(new)]; elements may repeat (all equality patterns are explored)
pub fn diff_roundtrip() {
    let lo = sym::param(0) as usize;
    let ln = sym::param(1) as usize;
    let mut old: Vec<Value> = Vec::new();
    for _ in 0..lo {
        old.push(sym::atom());
    }
    let mut new: Vec<Value> = Vec::new();
    for _ in 0..ln {
        new.push(sym::atom());
    }
    let patch = make_diff_patch(&old, &new).unwrap();
    sym::observe_i64(patch.len() as i64);
    let mut rebuilt = old.clone();
    apply_diff_patch(&mut rebuilt, &patch).unwrap();
    for x in rebuilt.iter() {
        sym::observe_i64(x.as_i64().unwrap());
    }
    assert!(rebuilt == new, "patched array differs from the submitted array");
    // an empty edit script is produced exactly when nothing changed (change detection relies on it)
    assert!(patch.is_empty() == (old == new), "empty patch <=> identical arrays violated");
    sym::reach(1);
}
