//! C17 beyond the memory backend: the directory backend (`filesystemadapter.rs`, executed over an ideal in-memory
//! file system model) and the Deflate wrapper (`flate2adapter.rs`, codec abstracted to an invertible framing), each
//! against the same reference model of the write-once contract, including a second adapter instance opened on the
//! same directory (persistence).
use crate::h_c11::{Model, BYTE_ASCII, WORD};
use crate::sym;
use melda::adapter::Adapter;
use melda::filesystemadapter::FilesystemAdapter;
use melda::flate2adapter::Flate2Adapter;
use melda::memoryadapter::MemoryAdapter;

/// keys of 2..3 word characters (the directory backend shards by the first two bytes of the key) with the suffixes
/// the library uses, a doubled suffix, and the wrapper's own internal suffix
fn any_key(exts: usize) -> String {
    let maxlen = if sym::param(3) == 0 { 3 } else { sym::param(3) as usize };
    let stem = sym::string(WORD, 2, maxlen);
    match sym::choose(exts) {
        0 => stem,
        1 => stem + ".delta",
        2 => stem + ".pack",
        3 => stem + ".delta.delta",
        _ => stem + ".flate",
    }
}

fn writes(ad: &dyn Adapter, n: usize, exts: usize, model: &mut Model, keys: &mut Vec<String>) {
    for i in 0..n {
        // a later write may target an existing key again (write-once: it must not change anything)
        let key = if i > 0 && sym::any_bool() { keys[0].clone() } else { any_key(exts) };
        let val = sym::string(BYTE_ASCII, 0, 3);
        ad.write_object(&key, val.as_bytes()).expect("write_object");
        model.write(&key, val.as_bytes());
        keys.push(key);
    }
}

fn verify(ad: &dyn Adapter, model: &Model, keys: &[String], in_range_only: bool, off: usize, len: usize) {
    for key in keys {
        let got = ad.read_object(key, 0, 0).expect("read_object of a written key");
        assert!(Some(&got) == model.get(key), "read does not return the bytes of the first write");
    }
    if let Some(key) = keys.first() {
        let full = model.get(key).unwrap().clone();
        if in_range_only {
            sym::assume(off + len <= full.len());
        }
        match ad.read_object(key, off, len) {
            Ok(got) => {
                assert!(off + len <= full.len(), "out-of-range slice read succeeded");
                assert!(got == full[off..off + len], "ranged read returns wrong bytes");
            }
            Err(_) => assert!(off + len > full.len(), "in-range slice read failed"),
        }
    }
    assert!(ad.read_object("missing.key", 0, 0).is_err(), "reading an unknown key succeeded");
    for ext in ["", ".delta", ".pack"] {
        let mut got = ad.list_objects(ext).expect("list_objects");
        got.sort();
        assert!(got == model.list(ext), "listing by suffix differs from the contract");
    }
}

/// params: [backend (0 = directory, 1 = Deflate over memory, 2 = Deflate over directory), number of writes, key suffix kinds (4 or 5), longest key stem (2 or 3)]
pub fn backend_contract() {
    let kind = sym::param(0);
    let n = sym::param(1) as usize;
    let exts = if sym::param(2) == 0 { 4 } else { sym::param(2) as usize };
    let mut model = Model(Vec::new());
    let mut keys: Vec<String> = Vec::new();
    // one ranged read (the same slice is read again after reopening)
    let off = sym::range(0, 4) as usize;
    let len = sym::range(1, 4) as usize;
    match kind {
        0 => {
            let dir = sym::scratch_dir();
            let ad = FilesystemAdapter::new(&dir).expect("FilesystemAdapter::new");
            assert!(ad.list_objects("").expect("list_objects on an empty directory").is_empty(), "fresh directory backend lists items");
            writes(&ad, n, exts, &mut model, &mut keys);
            verify(&ad, &model, &keys, false, off, len);
            // a second instance on the same directory shows the same content
            let again = FilesystemAdapter::new(&dir).expect("FilesystemAdapter::new (reopen)");
            verify(&again, &model, &keys, false, off, len);
        }
        1 => {
            let ad = Flate2Adapter::new(MemoryAdapter::new());
            writes(&ad, n, exts, &mut model, &mut keys);
            verify(&ad, &model, &keys, true, off, len);
        }
        _ => {
            let dir = sym::scratch_dir();
            let ad = Flate2Adapter::new(FilesystemAdapter::new(&dir).expect("FilesystemAdapter::new"));
            writes(&ad, n, exts, &mut model, &mut keys);
            verify(&ad, &model, &keys, true, off, len);
            let again = Flate2Adapter::new(FilesystemAdapter::new(&dir).expect("FilesystemAdapter::new (reopen)"));
            verify(&again, &model, &keys, true, off, len);
        }
    }
    sym::reach(1);
}
