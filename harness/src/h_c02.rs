//! C02 (blocks take effect only when causally complete; incremental refresh == reload) and the
//! file-copy route of C01: the items of a two-replica history are delivered one at a time, in any
//! order, to a fresh replica that refreshes after each file.
use crate::h_melda::*;
use crate::sym;
use melda::melda::{DeltaId, Melda};
use serde_json::Value;

struct Block {
    id: DeltaId,
    file: String,
    packs: Vec<String>,
    parents: Vec<DeltaId>,
}

fn block_of(m: &Melda, id: &DeltaId) -> Block {
    let d = m.get_delta(id).unwrap().expect("block");
    Block {
        id: id.clone(),
        file: id.to_string() + ".delta",
        packs: d.packs.clone().unwrap_or_default().into_iter().map(|p| p + ".pack").collect(),
        parents: d.parents.clone().unwrap_or_default().into_iter().collect(),
    }
}

fn commit1(r: &Rep) -> DeltaId {
    r.m.commit(None).expect("commit").expect("nothing staged").into_iter().next().unwrap()
}

/// canonical key of a set of blocks
fn key(ids: &[DeltaId]) -> String {
    let mut v: Vec<String> = ids.iter().map(|i| i.to_string()).collect();
    v.sort();
    v.join(",")
}

/// params: [history (0 = linear c1<-c2, 1 = c1<-cA, c1<-cB, {cA,cB}<-cM with c1 pre-delivered), k versions, symbolic value in b's edit (0/1)]
pub fn delivery() {
    let hist = sym::param(0);
    let k = sym::param(1) as usize;
    // ---- source history; `states` maps a causally closed set of blocks to the state shown with exactly those applied
    let mut states: Vec<(String, String)> = Vec::new();
    let mut blocks: Vec<Block> = Vec::new();
    let a = Rep::new();
    states.push((key(&[]), state(&a.m)));
    a.m.update(doc_with(&["a", "b"], &["x".to_string(), "y".to_string()], "t")).unwrap();
    let c1 = commit1(&a);
    states.push((key(&[c1.clone()]), state(&a.m)));
    blocks.push(block_of(&a.m, &c1));
    let mut a = a;
    let mut pre: Vec<String> = Vec::new();
    if hist == 0 {
        a.m.update(any_doc(k, 1)).unwrap();
        if !a.m.has_staging() {
            sym::reach(2);
            return;
        }
        let c2 = commit1(&a);
        states.push((key(&[c1.clone(), c2.clone()]), state(&a.m)));
        blocks.push(block_of(&a.m, &c2));
    } else {
        let mut b = Rep::new();
        b.pull(&a);
        a.m.update(any_doc(k, 0)).unwrap();
        let vb = if sym::param(2) != 0 { val() } else { "w".to_string() };
        b.m.update(doc_with(&["b", "a", "c"], &["y".to_string(), vb, "z".to_string()], "t")).unwrap();
        if !a.m.has_staging() {
            sym::reach(2);
            return;
        }
        let ca = commit1(&a);
        states.push((key(&[c1.clone(), ca.clone()]), state(&a.m)));
        let cb = commit1(&b);
        states.push((key(&[c1.clone(), cb.clone()]), state(&b.m)));
        a.pull(&b);
        states.push((key(&[c1.clone(), ca.clone(), cb.clone()]), state(&a.m)));
        let mut d = a.m.read(None).unwrap();
        d.insert("x".to_string(), Value::from(1));
        a.m.update(d).unwrap();
        let cm = commit1(&a);
        states.push((key(&[c1.clone(), ca.clone(), cb.clone(), cm.clone()]), state(&a.m)));
        blocks.push(block_of(&a.m, &ca));
        blocks.push(block_of(&a.m, &cb));
        blocks.push(block_of(&a.m, &cm));
        // the base block and its pack are already at the destination
        pre.push(blocks[0].file.clone());
        pre.extend(blocks[0].packs.iter().cloned());
    }
    let final_state = state(&a.m);
    // ---- delivery
    let src = a.ad.read().unwrap();
    let mut pending: Vec<String> = src.list_objects("").unwrap().into_iter().filter(|f| !pre.contains(f)).collect();
    let mut t = Rep::new();
    let mut delivered: Vec<String> = Vec::new();
    for f in &pre {
        t.ad.write().unwrap().write_object(f, &src.read_object(f, 0, 0).unwrap()).unwrap();
        delivered.push(f.clone());
    }
    t.m.refresh().expect("refresh");
    let mut reload_left = hist == 0;
    while !pending.is_empty() {
        let f = pending.remove(sym::choose(pending.len()));
        t.ad.write().unwrap().write_object(&f, &src.read_object(&f, 0, 0).unwrap()).unwrap();
        delivered.push(f);
        // once per run the live replica may do a full reload instead of an incremental refresh
        if reload_left && sym::any_bool() {
            reload_left = false;
            t.m.reload().expect("reload");
        } else {
            t.m.refresh().expect("refresh");
        }
        // which blocks are causally complete in the delivered set?
        let mut complete: Vec<DeltaId> = Vec::new();
        loop {
            let mut grew = false;
            for b in &blocks {
                if !complete.contains(&b.id)
                    && delivered.contains(&b.file)
                    && b.packs.iter().all(|p| delivered.contains(p))
                    && b.parents.iter().all(|p| complete.contains(p))
                {
                    complete.push(b.id.clone());
                    grew = true;
                }
            }
            if !grew {
                break;
            }
        }
        let expected = &states.iter().find(|(k, _)| *k == key(&complete)).expect("oracle state for a causally closed set").1;
        let st = state(&t.m);
        if st != *expected {
            sym::debug_str("incremental", &st);
            sym::debug_str("expected   ", expected);
        }
        assert!(st == *expected, "visible state is not the state of the causally complete blocks");
        assert!(state(&t.reopen()) == st, "incremental refresh differs from a full reload of the same storage");
    }
    assert!(state(&t.m) == final_state, "after the last file the replica differs from the source");
    sym::reach(1);
}

/// Mixed routes (C01): some files of a two-commit history reach a replica by plain file copy (any subset, any order,
/// refresh after each), the rest by meld from the source; exchanging until nothing new is learnt must give the source's
/// state and the same stored items. params: [k versions]
pub fn copy_then_meld() {
    let k = sym::param(0) as usize;
    let a = Rep::new();
    a.m.update(doc_with(&["a", "b"], &["x".to_string(), "y".to_string()], "t")).unwrap();
    commit1(&a);
    a.m.update(any_doc(k, 0)).unwrap();
    if !a.m.has_staging() {
        sym::reach(2);
        return;
    }
    commit1(&a);
    let final_state = state(&a.m);
    let mut t = Rep::new();
    {
        let src = a.ad.read().unwrap();
        let mut pending: Vec<String> = src.list_objects("").unwrap();
        pending.sort();
        while !pending.is_empty() && sym::any_bool() {
            let f = pending.remove(sym::choose(pending.len()));
            t.ad.write().unwrap().write_object(&f, &src.read_object(&f, 0, 0).unwrap()).unwrap();
            t.m.refresh().expect("refresh");
        }
    }
    // the rest arrives through meld; two rounds so that "nothing new" is observed
    t.pull(&a);
    let again = t.m.meld(&a.m).expect("meld");
    assert!(again.is_empty(), "a second meld from the same source still transfers blocks");
    t.m.refresh().expect("refresh");
    let mut fa = a.ad.read().unwrap().list_objects("").unwrap();
    let mut ft = t.ad.read().unwrap().list_objects("").unwrap();
    fa.sort();
    ft.sort();
    assert!(fa == ft, "after exchanging until nothing is new the two storages hold different items");
    assert!(state(&t.m) == final_state, "replica fed by file copy + meld differs from the source");
    assert!(state(&t.reopen()) == final_state, "reopened replica fed by file copy + meld differs from the source");
    sym::reach(1);
}

/// A payload-free record (a deletion) whose parent revision was written by a block that is not an ancestor: replica b
/// replays a stage exported by a (which it never met) and commits it. A third replica that receives only b's files
/// must hold the block (and its child) back until a's block and pack arrive.
pub fn foreign_stage_block() {
    let copy = |dst: &Ad, src: &Ad, f: &str| {
        let bytes = src.read().unwrap().read_object(f, 0, 0).unwrap();
        dst.write().unwrap().write_object(f, &bytes).unwrap();
    };
    let mk = |v: serde_json::Value| v.as_object().unwrap().clone();
    let a = Rep::new();
    a.m.create_object("o", mk(serde_json::json!({"v": val()}))).unwrap();
    a.m.commit(None).unwrap().expect("block a");
    a.m.delete_object("o").unwrap();
    let stage = a.m.stage().expect("stage");
    assert!(stage.is_some(), "nothing staged after delete_object");
    let b = Rep::new();
    if b.m.replay_stage(&stage).is_err() || !b.m.has_staging() {
        sym::reach(2);
        return;
    }
    b.m.commit(None).unwrap().expect("block L");
    b.m.create_object("z", mk(serde_json::json!({"w": 2}))).unwrap();
    b.m.commit(None).unwrap().expect("block L2");
    let mut c = Rep::new();
    let mut files: Vec<String> = b.ad.read().unwrap().list_objects("").unwrap();
    files.sort();
    for f in &files {
        copy(&c.ad, &b.ad, f);
        c.m.refresh().expect("refresh");
        assert!(c.m.get_all_objects().is_empty(), "a block whose record refers to an unavailable parent revision took effect");
        assert!(c.reopen().get_all_objects().is_empty(), "reload applies a block whose record refers to an unavailable parent revision");
    }
    let mut more: Vec<String> = a.ad.read().unwrap().list_objects("").unwrap();
    more.sort();
    for f in &more {
        copy(&c.ad, &a.ad, f);
    }
    c.m.refresh().expect("refresh");
    assert!(c.m.get_all_objects().contains("z"), "held-back blocks were not applied after the missing items arrived");
    assert!(state(&c.reopen()) == state(&c.m), "incremental refresh differs from reload");
    sym::reach(1);
}

/// As above for an *update* record: x changes its own element to a content that is already indexed from the pack of a
/// held-back block, so x's second block carries an update record and no payload of its own.
pub fn dedup_update() {
    let copy = |dst: &Ad, src: &Ad, f: &str| {
        let bytes = src.read().unwrap().read_object(f, 0, 0).unwrap();
        dst.write().unwrap().write_object(f, &bytes).unwrap();
    };
    let w = Rep::new();
    w.m.update(doc_with(&["a"], &["x".to_string()], "t")).unwrap();
    w.m.commit(None).unwrap();
    let files0 = w.ad.read().unwrap().list_objects("").unwrap();
    w.m.update(doc_with(&["a", "c"], &["x".to_string(), "q".to_string()], "t")).unwrap();
    w.m.commit(None).unwrap();
    let files1: Vec<String> = w.ad.read().unwrap().list_objects("").unwrap().into_iter().filter(|f| !files0.contains(f)).collect();
    let mut x = Rep::new();
    for f in &files1 {
        copy(&x.ad, &w.ad, f);
    }
    x.m.refresh().expect("refresh x");
    let l0 = x.ad.read().unwrap().list_objects("").unwrap();
    x.m.update(doc_with(&["k"], &["n".to_string()], "u")).unwrap();
    x.m.commit(None).unwrap().expect("x commit 1");
    let s1 = doc_text(&x.m);
    let l1 = x.ad.read().unwrap().list_objects("").unwrap();
    x.m.update(doc_with(&["k"], &["q".to_string()], "u")).unwrap();
    x.m.commit(None).unwrap().expect("x commit 2");
    let s2 = doc_text(&x.m);
    let l2 = x.ad.read().unwrap().list_objects("").unwrap();
    let first: Vec<String> = l1.iter().filter(|f| !l0.contains(f)).cloned().collect();
    let second: Vec<String> = l2.iter().filter(|f| !l1.contains(f)).cloned().collect();
    let mut z = Rep::new();
    for f in &first {
        copy(&z.ad, &x.ad, f);
    }
    z.m.refresh().expect("refresh z");
    assert!(doc_text(&z.m) == s1, "x's first commit not applied");
    for f in &second {
        copy(&z.ad, &x.ad, f);
        z.m.refresh().expect("refresh z");
        assert!(doc_text(&z.m) == doc_text(&z.reopen()), "incremental refresh differs from reload");
        for id in z.m.get_all_objects() {
            assert!(z.m.get_value(&id, None).is_ok(), "a visible object has no readable value (block applied without its objects)");
        }
    }
    let mid = doc_text(&z.m);
    assert!(mid == s1 || mid == s2, "a state that no commit produced");
    for f in files1.iter().filter(|f| f.ends_with(".pack")) {
        copy(&z.ad, &w.ad, f);
    }
    z.m.refresh().expect("refresh z");
    assert!(doc_text(&z.m) == s2, "the completed block is not applied");
    assert!(doc_text(&z.reopen()) == s2, "reload differs after the missing pack arrived");
    sym::reach(1);
}

/// Two replicas that never talked commit objects with partly identical content (symbolic value): a's block names pack Pa,
/// whose only object is also stored in b's pack. A third replica holding b's commit receives a's block and pack in either
/// order with a refresh after each: a's object is visible exactly when both files are there.
pub fn own_pack_required() {
    let v = val();
    let a = Rep::new();
    a.m.create_object("xa", obj(serde_json::json!({"v": v.clone()}))).unwrap();
    a.m.commit(None).unwrap().expect("block a");
    let b = Rep::new();
    b.m.create_object("xb", obj(serde_json::json!({"v": v.clone()}))).unwrap();
    b.m.create_object("yb", obj(serde_json::json!({"w": 2}))).unwrap();
    b.m.commit(None).unwrap().expect("block b");
    let mut c = Rep::new();
    c.pull(&b);
    assert!(c.m.get_all_objects().contains("xb"), "b's commit not applied");
    // block file first, pack file second (listing order is hash dependent)
    let mut pending: Vec<String> = a.ad.read().unwrap().list_objects(".delta").unwrap().into_iter().map(|f| f + ".delta").collect();
    pending.extend(a.ad.read().unwrap().list_objects(".pack").unwrap().into_iter().map(|f| f + ".pack"));
    let total = pending.len();
    while !pending.is_empty() {
        let f = pending.remove(sym::choose(pending.len()));
        let bytes = a.ad.read().unwrap().read_object(&f, 0, 0).unwrap();
        c.ad.write().unwrap().write_object(&f, &bytes).unwrap();
        c.m.refresh().expect("refresh");
        let complete = pending.is_empty();
        assert!(c.m.get_all_objects().contains("xa") == complete, "a block took effect without its own pack (or was held back although complete)");
        assert!(c.reopen().get_all_objects().contains("xa") == complete, "reload applies a block whose pack is missing (or holds back a complete one)");
    }
    let _ = total;
    sym::reach(1);
}

/// An object referenced by a block may live in a pack that belongs to another, held-back block (payloads are
/// de-duplicated against every indexed pack). The block must wait for that object as well.
pub fn dedup_across_packs() {
    let copy = |dst: &Ad, src: &Ad, f: &str| {
        let bytes = src.read().unwrap().read_object(f, 0, 0).unwrap();
        dst.write().unwrap().write_object(f, &bytes).unwrap();
    };
    // writer w: two commits; the second one stores element c = {"v": "q"}
    let w = Rep::new();
    w.m.update(doc_with(&["a"], &["x".to_string()], "t")).unwrap();
    w.m.commit(None).unwrap();
    let files0 = w.ad.read().unwrap().list_objects("").unwrap();
    w.m.update(doc_with(&["a", "c"], &["x".to_string(), "q".to_string()], "t")).unwrap();
    w.m.commit(None).unwrap();
    let files1: Vec<String> = w.ad.read().unwrap().list_objects("").unwrap().into_iter().filter(|f| !files0.contains(f)).collect();
    // replica x holds only the second commit of w (held back: its parent is missing) and commits its own origin
    // block that contains an element with the same content as c
    let mut x = Rep::new();
    for f in &files1 {
        copy(&x.ad, &w.ad, f);
    }
    x.m.refresh().expect("refresh x");
    assert!(x.m.get_all_objects().is_empty(), "a block without its parent took effect");
    let before = x.ad.read().unwrap().list_objects("").unwrap();
    x.m.update(doc_with(&["k", "c"], &["n".to_string(), "q".to_string()], "u")).unwrap();
    x.m.commit(None).unwrap().expect("x commit");
    let sx = state(&x.m);
    let files2: Vec<String> = x.ad.read().unwrap().list_objects("").unwrap().into_iter().filter(|f| !before.contains(f)).collect();
    // replica z receives x's commit only: it is complete only if every referenced object is readable
    let mut z = Rep::new();
    for f in &files2 {
        copy(&z.ad, &x.ad, f);
        z.m.refresh().expect("refresh z");
        let st = state(&z.m);
        assert!(st == state(&z.reopen()), "incremental refresh differs from reload");
        for id in z.m.get_all_objects() {
            assert!(z.m.get_value(&id, None).is_ok(), "a visible object has no readable value (block applied without its objects)");
        }
    }
    // then the pack of the held-back block arrives: now everything x's block needs is present
    for f in files1.iter().filter(|f| f.ends_with(".pack")) {
        copy(&z.ad, &w.ad, f);
    }
    z.m.refresh().expect("refresh z");
    assert!(same_state(&z.reopen(), &z.m), "incremental refresh differs from reload after the missing pack arrived");
    for id in z.m.get_all_objects() {
        assert!(z.m.get_value(&id, None).is_ok(), "a visible object has no readable value");
    }
    if z.m.get_all_objects().len() > 0 {
        assert!(doc_text(&z.m) == doc_text(&x.m), "the completed block shows a different document");
    }
    let _ = sx;
    sym::reach(1);
}
