//! Melda-level scenarios (Stage 2): shared helpers.
use crate::sym;
use melda::adapter::Adapter;
use melda::melda::Melda;
use melda::memoryadapter::MemoryAdapter;
use serde_json::{json, Map, Value};
use std::sync::{Arc, RwLock};

pub type Ad = Arc<RwLock<Box<dyn Adapter>>>;

pub const LOWER: usize = 1;

pub fn new_adapter() -> Ad {
    Arc::new(RwLock::new(Box::new(MemoryAdapter::new())))
}

pub fn obj(v: Value) -> Map<String, Value> {
    v.as_object().unwrap().clone()
}

pub struct Rep {
    pub m: Melda,
    pub ad: Ad,
}

impl Rep {
    pub fn new() -> Rep {
        let ad = new_adapter();
        Rep { m: Melda::new(ad.clone()).expect("Melda::new on empty storage"), ad }
    }
    pub fn reopen(&self) -> Melda {
        Melda::new(self.ad.clone()).expect("Melda::new on existing storage")
    }
    /// an independent replica opened on a copy of this replica's current storage
    pub fn snapshot(&self) -> Rep {
        let ad = new_adapter();
        {
            let src = self.ad.read().unwrap();
            let dst = ad.write().unwrap();
            for k in src.list_objects("").unwrap() {
                dst.write_object(&k, &src.read_object(&k, 0, 0).unwrap()).unwrap();
            }
        }
        Rep { m: Melda::new(ad.clone()).expect("Melda::new on copied storage"), ad }
    }
    /// meld from `other` and refresh
    pub fn pull(&mut self, other: &Rep) {
        self.m.meld(&other.m).expect("meld");
        self.m.refresh().expect("refresh");
    }
}

/// symbolic one-letter value
pub fn val() -> String {
    sym::string(LOWER, 1, 1)
}

/// element orders over the universe {a, b, c, d}
pub const ORDERS: [&[&str]; 12] = [
    &["a", "b", "c"], &["a", "d", "b", "c"], &["b", "a"], &["a"], &[], &["b", "c"], &["c"], &["c", "a", "b"], &["a", "c"], &["b"], &["d", "a", "b"],
    &["a", "b"],
];

/// document with one flattened array `items♭` holding the given elements (each with value `vals[i]`) and a title
pub fn doc_with(order: &[&str], vals: &[String], title: &str) -> Map<String, Value> {
    let mut items: Vec<Value> = Vec::new();
    for (i, id) in order.iter().enumerate() {
        items.push(json!({"_id": *id, "v": vals[i].clone()}));
    }
    let mut m = Map::new();
    m.insert("title".to_string(), Value::from(title));
    m.insert("items♭".to_string(), Value::from(items));
    m
}

/// a document chosen among the first `k` orders; the first `nsym` element values and (if nsym > 0) the title
/// are symbolic, everything else concrete
pub fn any_doc(k: usize, nsym: usize) -> Map<String, Value> {
    let o = ORDERS[sym::choose(k)];
    let mut vals = Vec::new();
    for i in 0..o.len() {
        vals.push(if i < nsym { val() } else { "x".to_string() });
    }
    let t = if nsym > 1 { val() } else { "t".to_string() };
    doc_with(o, &vals, &t)
}

/// everything a client can observe of a replica, as canonical text
pub fn state(m: &Melda) -> String {
    let mut s = Map::new();
    let mut objs = Map::new();
    let reported = m.in_conflict();
    for id in m.get_all_objects() {
        let w = m.get_winner(&id).unwrap_or_else(|e| format!("ERR {}", e));
        let c: Vec<String> = m.get_conflicting(&id).map(|c| c.into_iter().collect()).unwrap_or_default();
        // an object is reported in conflict exactly when it has conflicting (losing live) revisions, none of them the winner
        assert!(reported.contains(&id) == !c.is_empty(), "in_conflict and get_conflicting disagree");
        assert!(!c.contains(&w), "the winner is listed among the conflicting revisions");
        objs.insert(id, json!([w, c]));
    }
    s.insert("objects".to_string(), Value::from(objs));
    s.insert("conflicts".to_string(), Value::from(m.in_conflict().into_iter().collect::<Vec<String>>()));
    s.insert(
        "doc".to_string(),
        match m.read(None) {
            Ok(d) => Value::from(d),
            Err(e) => Value::from(format!("ERR {}", e)),
        },
    );
    s.insert("heads".to_string(), Value::from(m.get_anchors().iter().map(|a| a.to_string()).collect::<Vec<String>>()));
    serde_json::to_string(&s).unwrap()
}

pub fn doc_text(m: &Melda) -> String {
    match m.read(None) {
        Ok(d) => serde_json::to_string(&d).unwrap(),
        Err(e) => format!("ERR {}", e),
    }
}

/// two replicas sharing a committed base document
pub fn base_pair(base: Map<String, Value>) -> (Rep, Rep) {
    let a = Rep::new();
    a.m.update(base).expect("update base");
    a.m.commit(None).expect("commit base").expect("base commit produced no block");
    let mut b = Rep::new();
    b.pull(&a);
    (a, b)
}

/// smoke scenario: update / read / commit / reopen with a concrete document
pub fn smoke() {
    let a = Rep::new();
    let doc = obj(json!({"title": "t", "items♭": [{"_id": "a", "v": 1}, {"_id": "b", "v": "x"}]}));
    a.m.update(doc.clone()).expect("update");
    let back = a.m.read(None).expect("read");
    sym::observe_str(&serde_json::to_string(&back).unwrap());
    let mut expect = doc.clone();
    expect.insert("_id".to_string(), Value::from("√"));
    assert!(back == expect, "read differs from the submitted document");
    let c = a.m.commit(None).expect("commit");
    assert!(c.is_some());
    let s1 = state(&a.m);
    sym::observe_str(&s1);
    let r2 = a.reopen();
    assert!(state(&r2) == s1, "reopened replica shows a different state");
    sym::reach(1);
}

/// compares the observable state of two replicas (prints both on the native side when they differ)
pub fn same_state(a: &Melda, b: &Melda) -> bool {
    let (sa, sb) = (state(a), state(b));
    if sa != sb {
        sym::debug_str("left ", &sa);
        sym::debug_str("right", &sb);
        return false;
    }
    true
}
