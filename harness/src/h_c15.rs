//! C15 (Melda level): staged changes can be discarded, exported and replayed exactly.
use crate::h_melda::*;
use crate::sym;

/// stage up to `n` operations on top of a committed (and possibly merged) state
fn stage_ops(r: &Rep, n: usize, k: usize) {
    for _ in 0..n {
        match sym::choose(5) {
            4 => {
                // an object created and removed again within the same stage (its payload stays in the data stage)
                let mut o = serde_json::Map::new();
                o.insert("v".to_string(), serde_json::Value::from("fresh"));
                r.m.create_object("zz", o).expect("create_object");
                r.m.remove_object("zz").expect("remove_object");
            }
            3 => {
                // a staged resolution in favour of any live leaf (only possible while `a` is in conflict)
                if r.m.in_conflict().contains("a") {
                    let w = r.m.get_winner("a").unwrap();
                    let mut leaves: Vec<String> = r.m.get_conflicting("a").unwrap().into_iter().collect();
                    leaves.push(w);
                    let chosen = leaves[sym::choose(leaves.len())].clone();
                    r.m.resolve_as("a", &chosen).expect("resolve_as");
                }
            }
            0 => {
                r.m.update(any_doc(k, 0)).expect("update");
            }
            1 => {
                // deletion only (payload-free stage)
                r.m.delete_object("a").expect("delete_object");
            }
            _ => {
                r.m.update(doc_with(&["b", "a"], &[val(), "x".to_string()], "t")).expect("update");
            }
        }
    }
}

/// params: [k orders, staged ops, with conflict (0/1)]
pub fn stage_roundtrip() {
    let k = sym::param(0) as usize;
    let n = sym::param(1) as usize;
    let conflict = sym::param(2) != 0;
    let (mut a, b) = base_pair(doc_with(&["a", "b"], &["x".to_string(), "y".to_string()], "t"));
    if conflict {
        a.m.update(doc_with(&["a", "b"], &[val(), "y".to_string()], "t")).unwrap();
        a.m.commit(None).unwrap();
        b.m.update(doc_with(&["a", "b"], &["w".to_string(), "y".to_string()], "t")).unwrap();
        b.m.commit(None).unwrap();
        a.pull(&b);
    }
    let s0 = state(&a.m);
    assert!(!a.m.has_staging() && a.m.stage().unwrap().is_none(), "something staged in a committed state");
    stage_ops(&a, n, k);
    let s1 = state(&a.m);
    let staged = a.m.has_staging();
    sym::observe_bool(staged);
    let export = a.m.stage().expect("stage");
    assert!(export.is_some() == staged || !staged, "stage() exports nothing although changes are staged");
    if staged {
        // reload / refresh / time travel refuse to run and change nothing
        assert!(a.m.reload().is_err(), "reload ran with staged changes");
        assert!(a.m.refresh().is_err(), "refresh ran with staged changes");
        assert!(a.m.reload_until(&a.m.get_anchors()).is_err(), "reload_until ran with staged changes");
        assert!(state(&a.m) == s1, "a refused reload/refresh changed the state");
    }
    // discard
    a.m.unstage().expect("unstage");
    assert!(!a.m.has_staging(), "staged after unstage");
    assert!(state(&a.m) == s0, "unstage did not restore the committed state");
    assert!(a.m.stage().expect("stage").is_none(), "something is still exported as staged after unstage");
    assert!(a.m.reload().is_ok(), "reload refused although everything was discarded");
    assert!(state(&a.m) == s0, "reload after a discard changed the state");
    // replay the export
    a.m.replay_stage(&export).expect("replay_stage");
    assert!(state(&a.m) == s1, "replaying the exported stage did not restore the staged state");
    assert!(a.m.has_staging() == staged, "has_staging differs after replay");
    // committing the replayed stage gives the same durable result as committing directly
    let direct = a.snapshot();
    let c = a.m.commit(None).expect("commit");
    assert!(c.is_some() == staged, "commit reported a block although nothing was staged (or vice versa)");
    assert!(!a.m.has_staging(), "revisions still staged after commit");
    if c.is_some() {
        assert!(a.m.stage().unwrap().is_none(), "something staged after a successful commit");
    }
    let _ = direct;
    assert!(state(&a.reopen()) == state(&a.m), "reopened replica differs after committing a replayed stage");
    sym::reach(1);
}
