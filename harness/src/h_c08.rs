//! C08: every operation returns (no self-deadlock, no panic) in reachable states.
use crate::h_melda::*;
use crate::sym;
use serde_json::Value;

/// Two replicas edit the same flattened array concurrently; after exchange one of them stages a further
/// edit and commits (commit resolves array conflicts automatically). params: [k orders, symbolic values?]
pub fn commit_with_array_conflict() {
    let k = sym::param(0) as usize;
    let symbolic = sym::param(1) as usize;
    let (mut a, b) = base_pair(any_doc(k, symbolic));
    a.m.update(any_doc(k, symbolic)).expect("update a");
    let ca = a.m.commit(None).expect("commit a");
    b.m.update(any_doc(k, symbolic)).expect("update b");
    let cb = b.m.commit(None).expect("commit b");
    a.pull(&b);
    let conflicts = a.m.in_conflict();
    sym::observe_i64(conflicts.len() as i64);
    sym::observe_bool(ca.is_some());
    sym::observe_bool(cb.is_some());
    // stage one more edit on top of the merged view and commit
    let mut d = a.m.read(None).expect("read merged");
    d.insert("x".to_string(), Value::from(1));
    a.m.update(d).expect("update merged");
    a.m.commit(None).expect("commit with conflicts pending");
    sym::observe_i64(a.m.in_conflict().len() as i64);
    // all the other operations return as well
    a.m.stage().expect("stage");
    a.m.stage_full_snapshot().expect("snapshot");
    a.m.unstage().expect("unstage");
    a.m.refresh().expect("refresh");
    a.m.reload().expect("reload");
    let _ = state(&a.m);
    sym::reach(1);
}
