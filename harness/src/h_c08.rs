//! C08: every operation returns (no self-deadlock, no panic) in reachable states.
use crate::h_melda::*;
use crate::sym;
use serde_json::Value;

/// Two replicas edit the same flattened array concurrently; after exchange one of them stages a further
/// edit and commits (commit resolves array conflicts automatically). params: [k orders, symbolic values?]
pub fn commit_with_array_conflict() {
    let k = sym::param(0) as usize;
    let symbolic = sym::param(1) as usize;
    let (mut a, b) = base_pair(any_doc(k, symbolic));
    a.m.update(any_doc(k, symbolic)).expect("update a");
    let ca = a.m.commit(None).expect("commit a");
    b.m.update(any_doc(k, symbolic)).expect("update b");
    let cb = b.m.commit(None).expect("commit b");
    a.pull(&b);
    let conflicts = a.m.in_conflict();
    sym::observe_i64(conflicts.len() as i64);
    sym::observe_bool(ca.is_some());
    sym::observe_bool(cb.is_some());
    // stage one more edit on top of the merged view and commit
    let mut d = a.m.read(None).expect("read merged");
    d.insert("x".to_string(), Value::from(1));
    a.m.update(d).expect("update merged");
    a.m.commit(None).expect("commit with conflicts pending");
    sym::observe_i64(a.m.in_conflict().len() as i64);
    // all the other operations return as well
    a.m.stage().expect("stage");
    a.m.stage_full_snapshot().expect("snapshot");
    a.m.unstage().expect("unstage");
    a.m.refresh().expect("refresh");
    a.m.reload().expect("reload");
    let _ = state(&a.m);
    sym::reach(1);
}

use melda::melda::Melda;
use serde_json::Map;

/// every public operation is called once in the given state; errors are fine, panics and lock re-acquisition
/// are not. The operations that change the state come last.
fn exercise(r: &mut Rep, other: &Rep) {
    let m = &r.m;
    let _ = m.read(None);
    let ids: Vec<String> = m.get_all_objects().into_iter().collect();
    for id in &ids {
        let w = m.get_winner(id);
        let _ = m.read(Some(id.as_str()));
        let _ = m.get_conflicting(id);
        let _ = m.get_value(id, None);
        if let Ok(w) = w {
            let _ = m.get_value(id, Some(&w));
            let _ = m.get_parent_revision(id, &w);
        }
    }
    let _ = m.in_conflict();
    let _ = m.has_staging();
    let _ = m.get_anchors();
    for a in m.get_anchors() {
        let _ = m.get_delta(&a);
    }
    let st = m.stage().expect("stage");
    let _ = m.meld(&other.m);
    let _ = m.stage_full_snapshot();
    let _ = m.read(None);
    let _ = m.replay_stage(&st);
    // the exported stage is also replayed on a replica that knows none of the objects
    let fresh = Rep::new();
    let _ = fresh.m.replay_stage(&st);
    let _ = fresh.m.read(None);
    let _ = m.refresh_is_refused_or_ok();
}

trait RefreshProbe {
    fn refresh_is_refused_or_ok(&self) -> bool;
}
impl RefreshProbe for Melda {
    fn refresh_is_refused_or_ok(&self) -> bool {
        // reload is `&self`; with staged changes it must refuse, otherwise succeed
        match self.reload() {
            Ok(()) => true,
            Err(_) => self.has_staging(),
        }
    }
}

/// params: [state kind 0..5, k orders]
pub fn all_operations() {
    let kind = sym::param(0);
    let k = sym::param(1) as usize;
    let (mut a, mut b) = base_pair(doc_with(&["a", "b"], &["x".to_string(), "y".to_string()], "t"));
    match kind {
        0 => {
            // fresh, empty replicas
            a = Rep::new();
            b = Rep::new();
        }
        1 => {
            // staged changes incl. a deletion and a re-creation
            a.m.update(any_doc(k, 0)).expect("update");
            a.m.update(any_doc(k, 0)).expect("update");
        }
        2 => {
            // committed linear history with a deleted object
            a.m.update(doc_with(&["b"], &["y".to_string()], "t")).expect("update");
            a.m.commit(None).expect("commit");
            a.m.update(any_doc(k, 0)).expect("update");
            a.m.commit(None).expect("commit");
        }
        3 | 4 => {
            // object and array conflicts pending (4: plus a staged resolution)
            a.m.update(any_doc(k, 1)).expect("update a");
            a.m.commit(None).expect("commit a");
            b.m.update(doc_with(&["b", "a", "c"], &["y".to_string(), "w".to_string(), "z".to_string()], "t")).expect("update b");
            b.m.commit(None).expect("commit b");
            a.pull(&b);
            if kind == 4 {
                for id in a.m.in_conflict() {
                    let w = a.m.get_winner(&id).expect("winner");
                    let _ = a.m.resolve_as(&id, &w);
                }
            }
        }
        6 => {
            // one replica drops the flattened array (its descriptor is deleted) while the other edits the array and
            // the root object: the surviving root may refer to a descriptor whose winner is a deletion
            let mut d = Map::new();
            d.insert("title".to_string(), serde_json::Value::from(val()));
            a.m.update(d).expect("update a");
            a.m.commit(None).expect("commit a");
            b.m.update(doc_with(&["b", "a", "c"], &["y".to_string(), "x".to_string(), "z".to_string()], "u")).expect("update b");
            b.m.commit(None).expect("commit b");
            a.pull(&b);
        }
        7 => {
            // a block whose parent is missing sits in a's storage (held back by the first refresh)
            b.m.update(any_doc(k, 0)).expect("update b");
            b.m.commit(None).expect("commit b");
            let mid = b.ad.read().unwrap().list_objects("").unwrap();
            b.m.update(doc_with(&["c"], &["z".to_string()], "u")).expect("update b");
            b.m.commit(None).expect("commit b");
            {
                let src = b.ad.read().unwrap();
                for f in src.list_objects("").unwrap() {
                    if !mid.contains(&f) {
                        a.ad.write().unwrap().write_object(&f, &src.read_object(&f, 0, 0).unwrap()).unwrap();
                    }
                }
            }
            a.m.refresh().expect("refresh with a block whose parent is missing");
            // the block is still held back when the next refresh starts
            a.m.refresh().expect("second refresh with a held-back block");
            let _ = a.m.read(None);
        }
        _ => {
            // after time travel to the first block
            a.m.update(any_doc(k, 0)).expect("update");
            a.m.commit(None).expect("commit");
            let first = b.m.get_anchors();
            a.m.reload_until(&first).expect("reload_until");
        }
    }
    exercise(&mut a, &b);
    // state changing operations
    let d = a.m.read(None).unwrap_or_else(|_| Map::new());
    if !d.is_empty() {
        a.m.update(d).expect("update with the current document");
    }
    let _ = a.m.delete_object("a");
    let _ = a.m.delete_object("nonexistent");
    let _ = a.m.commit(None).expect("commit");
    let _ = a.m.unstage();
    let _ = a.m.refresh();
    let _ = a.m.reload();
    let _ = a.m.read(None);
    sym::reach(1);
}
