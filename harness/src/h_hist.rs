//! C13 (commit graph well formed, reads back unchanged) and C14 (time travel) on a two-replica history
//! with one concurrent pair and one merge commit.
use crate::h_melda::*;
use crate::sym;
use melda::melda::{DeltaId, Melda};
use serde_json::{json, Map, Value};
use std::collections::BTreeSet;

pub const PRINTABLE: usize = 4;

fn block_keys(r: &Rep) -> Vec<String> {
    r.ad.read().unwrap().list_objects(".delta").unwrap()
}

/// commit on `r` and check the shape of the new block (C13)
fn checked_commit(r: &Rep, info: Option<Map<String, Value>>) -> DeltaId {
    let heads_before = r.m.get_anchors();
    let keys_before = block_keys(r);
    let c = r.m.commit(info.clone()).expect("commit").expect("nothing was staged");
    assert!(c.len() == 1, "commit reports more than one block");
    let id = c.iter().next().unwrap().clone();
    let keys_after = block_keys(r);
    assert!(keys_after.len() == keys_before.len() + 1, "commit did not create exactly one block");
    assert!(keys_after.contains(&id.to_string()) && !keys_before.contains(&id.to_string()), "the reported block is not the new stored item");
    let d = r.m.get_delta(&id).expect("get_delta").expect("committed block not retrievable");
    let parents = d.parents.clone().unwrap_or_default();
    assert!(parents == heads_before, "parents of the new block are not the previous heads");
    for p in &parents {
        assert!(id.index() > p.index(), "index of the new block does not exceed its parent's");
    }
    if parents.is_empty() {
        assert!(id.index() == 1, "origin block with index != 1");
    } else {
        assert!(id.index() == parents.iter().map(|p| p.index()).max().unwrap() + 1, "index is not max(parent index) + 1");
    }
    assert!(d.info == info, "commit metadata reads back differently");
    assert!(d.id == Some(id.clone()), "block identifier reads back differently");
    let heads: BTreeSet<DeltaId> = [id.clone()].into_iter().collect();
    assert!(r.m.get_anchors() == heads, "the new block is not the only head after commit");
    id
}

/// heads = applied blocks not named as parent by an applied block; ancestor closed (C13), seen through the API
fn check_heads(m: &Melda, known: &[DeltaId]) {
    let heads = m.get_anchors();
    // every ancestor of a head is retrievable and no head is an ancestor of another head
    let mut seen: Vec<DeltaId> = Vec::new();
    let mut queue: Vec<DeltaId> = heads.iter().cloned().collect();
    while let Some(b) = queue.pop() {
        if seen.contains(&b) {
            continue;
        }
        let d = m.get_delta(&b).expect("get_delta").expect("ancestor of a head is not loaded");
        for p in d.parents.clone().unwrap_or_default() {
            assert!(!heads.contains(&p), "a head is an ancestor of another head");
            assert!(p.index() < b.index(), "parent index not below child index (cycle?)");
            queue.push(p);
        }
        seen.push(b);
    }
    let _ = known;
}

/// as check_heads, for a replica that has applied exactly the blocks `known`: the heads are exactly the known blocks
/// that no known block names as parent
fn check_heads_all(m: &Melda, known: &[DeltaId]) {
    check_heads(m, known);
    let mut expected: BTreeSet<DeltaId> = known.iter().cloned().collect();
    for b in known {
        let d = m.get_delta(b).expect("get_delta").expect("known block is not loaded");
        for p in d.parents.clone().unwrap_or_default() {
            expected.remove(&p);
        }
    }
    assert!(m.get_anchors() == expected, "heads are not exactly the applied blocks that no applied block names as parent");
}

/// an element object that is not deleted (the root if there is none)
fn live_element(m: &Melda) -> String {
    for id in ["a", "b", "c", "d"] {
        if let Ok(v) = m.get_value(id, None) {
            if !v.contains_key("_deleted") {
                return id.to_string();
            }
        }
    }
    "√".to_string()
}

fn meta(tag: &str) -> Option<Map<String, Value>> {
    Some(obj(json!({"author": tag, "note": sym::string(PRINTABLE, 1, 1), "n": {"k": [1, 2]}})))
}

pub struct Hist {
    pub a: Rep,
    pub b: Rep,
    /// (heads, state of replica a while these were its heads)
    pub points: Vec<(BTreeSet<DeltaId>, String)>,
    pub ids: Vec<DeltaId>,
}

/// history: c0 <- c1 <- cA (on a), c0 <- cB (on b: shorter branch), {cA,cB} <- cM (merge on a), cM <- c5
pub fn build(k: usize, nsym: usize) -> Hist {
    let mut points = Vec::new();
    let a = Rep::new();
    a.m.update(doc_with(&["a"], &["w".to_string()], "s")).unwrap();
    let c0 = checked_commit(&a, None);
    points.push((a.m.get_anchors(), state(&a.m)));
    // the second replica forks here: its branch is one block shorter than a's
    let mut b = Rep::new();
    b.pull(&a);
    a.m.update(doc_with(&["a", "b"], &["x".to_string(), "y".to_string()], "t")).unwrap();
    let c1 = checked_commit(&a, meta("a"));
    points.push((a.m.get_anchors(), state(&a.m)));
    a.m.update(any_doc(k, nsym)).unwrap();
    let mut ids = vec![c0, c1];
    if a.m.has_staging() {
        ids.push(checked_commit(&a, None));
        points.push((a.m.get_anchors(), state(&a.m)));
    }
    b.m.update(any_doc(k, 0)).unwrap();
    if b.m.has_staging() {
        ids.push(checked_commit(&b, meta("b")));
    }
    let mut a = a;
    a.pull(&b);
    check_heads_all(&a.m, &ids);
    points.push((a.m.get_anchors(), state(&a.m)));
    let mut d = a.m.read(None).expect("read merged");
    d.insert("x".to_string(), Value::from(1));
    a.m.update(d).unwrap();
    ids.push(checked_commit(&a, Some(Map::new())));
    points.push((a.m.get_anchors(), state(&a.m)));
    // the last block stores no new content (a deletion only): a block without pack
    let victim = live_element(&a.m);
    a.m.delete_object(&victim).unwrap();
    ids.push(checked_commit(&a, None));
    points.push((a.m.get_anchors(), state(&a.m)));
    Hist { a, b, points, ids }
}

/// params: [k orders, symbolic values]. C13
pub fn commit_graph() {
    let k = sym::param(0) as usize;
    let nsym = sym::param(1) as usize;
    let mut h = build(k, nsym);
    h.b.pull(&h.a);
    check_heads_all(&h.b.m, &h.ids);
    assert!(h.b.m.get_anchors() == h.a.m.get_anchors(), "heads differ between replicas holding the same blocks");
    // every block reads back identically on both replicas
    for id in &h.ids {
        let da = h.a.m.get_delta(id).unwrap().expect("block missing on a");
        let db = h.b.m.get_delta(id).unwrap().expect("block missing on b");
        assert!(da.parents == db.parents && da.info == db.info && da.packs == db.packs && da.id == db.id, "block reads back differently on the other replica");
    }
    // and after reopening
    let ra = h.a.reopen();
    check_heads_all(&ra, &h.ids);
    for id in &h.ids {
        let d1 = h.a.m.get_delta(id).unwrap().unwrap();
        let d2 = ra.get_delta(id).unwrap().expect("block missing after reopen");
        assert!(d1.parents == d2.parents && d1.info == d2.info && d1.packs == d2.packs, "block reads back differently after reopen");
    }
    // heads after time travel to an inner block: exactly that block (later blocks are loaded but not applied)
    let target: BTreeSet<DeltaId> = [h.ids[sym::choose(h.ids.len())].clone()].into_iter().collect();
    if ra.reload_until(&target).is_ok() {
        assert!(ra.get_anchors() == target, "heads after time travel are not the applied blocks without applied children");
        check_heads(&ra, &h.ids);
    }
    ra.reload().expect("reload");
    assert!(ra.get_anchors() == h.a.m.get_anchors(), "heads after reload differ");
    // re-doing, after a time travel, exactly the edit of a block that is already stored (the last block: a deletion,
    // no pack, same parents): the commit must behave like any other (one head: the block; parents the previous heads)
    let n = h.ids.len();
    let prev: BTreeSet<DeltaId> = [h.ids[n - 2].clone()].into_iter().collect();
    ra.reload_until(&prev).expect("reload_until the block before the last");
    let victim = live_element(&ra);
    ra.delete_object(&victim).expect("redo delete");
    let c = ra.commit(None).expect("redo commit").expect("redo produced no block");
    assert!(ra.get_anchors() == c, "after re-doing a stored block the heads are not the committed block");
    let d = ra.get_delta(c.iter().next().unwrap()).unwrap().unwrap();
    assert!(d.parents.clone().unwrap_or_default() == prev, "re-done block has wrong parents");
    check_heads(&ra, &h.ids);
    sym::reach(1);
}

/// params: [k orders]. C13: a replica that travelled back to an inner block melds a block committed elsewhere on top
/// of the latest heads and refreshes: the applied blocks stay ancestor-closed (heads never contain an ancestor of a head)
/// and the heads equal those of a replica opened on the same storage.
pub fn meld_after_travel() {
    let k = sym::param(0) as usize;
    let h = build(k, 0);
    let z = h.a.snapshot();
    let mut d = z.m.read(None).expect("read");
    d.insert("y".to_string(), Value::from(2));
    z.m.update(d).unwrap();
    let cz = checked_commit(&z, None);
    let mut ids = h.ids.clone();
    ids.push(cz);
    let mut ra = h.a.reopen();
    let target: BTreeSet<DeltaId> = [h.ids[sym::choose(h.ids.len())].clone()].into_iter().collect();
    if ra.reload_until(&target).is_err() {
        sym::reach(2);
        return;
    }
    ra.meld(&z.m).expect("meld");
    ra.refresh().expect("refresh");
    check_heads_all(&ra, &ids);
    let fresh = h.a.reopen();
    check_heads_all(&fresh, &ids);
    assert!(ra.get_anchors() == fresh.get_anchors(), "heads after time travel + meld + refresh differ from a replica opened on the same storage");
    assert!(state(&ra) == state(&fresh), "state after time travel + meld + refresh differs from a replica opened on the same storage");
    sym::reach(1);
}

fn revisions_of(m: &Melda) -> Vec<(String, String, Option<String>, Map<String, Value>)> {
    // (object, revision, parent, value) for the winner chain of every object
    let mut out = Vec::new();
    for id in m.get_all_objects() {
        let mut cur = m.get_winner(&id).ok();
        while let Some(r) = cur {
            let p = m.get_parent_revision(&id, &r).expect("get_parent_revision");
            let v = m.get_value(&id, Some(&r)).expect("get_value");
            out.push((id.clone(), r.clone(), p.clone(), v));
            cur = p;
        }
    }
    out
}

/// params: [k orders, symbolic values]. C14
pub fn time_travel() {
    let k = sym::param(0) as usize;
    let nsym = sym::param(1) as usize;
    let h = build(k, nsym);
    let latest = state(&h.a.m);
    // optionally travel somewhere else first (the starting point of a time travel must not matter)
    if sym::any_bool() {
        let j = sym::choose(h.points.len());
        h.a.m.reload_until(&h.points[j].0).expect("reload_until (first hop)");
    }
    let i = sym::choose(h.points.len());
    let (heads, recorded) = h.points[i].clone();
    sym::observe_i64(heads.len() as i64);
    h.a.m.reload_until(&heads).expect("reload_until");
    assert!(h.a.m.get_anchors() == heads, "heads after time travel are not the chosen blocks");
    let st = state(&h.a.m);
    if st != recorded {
        sym::debug_str("travelled", &st);
        sym::debug_str("recorded ", &recorded);
    }
    assert!(st == recorded, "time travel does not show the state the replica had at those heads");
    let revs = revisions_of(&h.a.m);
    let fresh = Melda::new_until(h.a.ad.clone(), &heads).expect("new_until");
    assert!(state(&fresh) == recorded, "new_until differs from the recorded state");
    h.a.m.reload().expect("reload");
    assert!(state(&h.a.m) == latest, "plain reload after time travel does not return to the latest state");
    // every revision of the travelled history is still retrievable with the same value and parent
    for (id, r, p, v) in revs {
        assert!(h.a.m.get_value(&id, Some(&r)).expect("historical value") == v, "historical value changed");
        assert!(h.a.m.get_parent_revision(&id, &r).expect("historical parent") == p, "historical parent changed");
    }
    sym::reach(1);
}

/// C14 on a deeper history of `rounds` diamonds: in every round both replicas edit and commit, then exchange in both
/// directions. Every recorded head set of replica a is travelled to. params: [rounds]
/// C14 / C16: a reader opened cold on the storage of a writer that committed a chain of array versions (every array is
/// rebuilt from its edit scripts) travels to two earlier points in a row; cache capacities symbolic 1..3 or default.
/// params: [0 = default capacities, 1 = symbolic 1..3]
pub fn cold_reader_travel() {
    if sym::param(0) != 0 {
        let cap = sym::range(1, 3) as usize;
        sym::set_env("MELDA_ARRAYDESCRIPTORS_CACHE_CAP", cap);
        sym::set_env("MELDA_DATA_CACHE_CAP", cap);
    }
    let versions: [&[&str]; 5] = [&["a", "b", "c", "d"], &["b", "c", "d"], &["c", "d", "e"], &["d", "e"], &["e", "a"]];
    let w = Rep::new();
    let mut points: Vec<(BTreeSet<DeltaId>, String)> = Vec::new();
    for v in versions.iter() {
        let vals: Vec<String> = v.iter().map(|_| "x".to_string()).collect();
        w.m.update(doc_with(v, &vals, "t")).unwrap();
        w.m.commit(None).unwrap().expect("block");
        points.push((w.m.get_anchors(), doc_text(&w.m)));
    }
    let mut cold = w.reopen();
    assert!(doc_text(&cold) == points[4].1, "reopened replica reads a different document");
    for _ in 0..2 {
        let i = sym::choose(points.len());
        cold.reload_until(&points[i].0).expect("reload_until (cold reader)");
        assert!(doc_text(&cold) == points[i].1, "a reader opened cold shows a different past document");
    }
    cold.reload().expect("reload");
    assert!(doc_text(&cold) == points[4].1, "reload after time travel does not return to the latest document");
    sym::reach(1);
}

pub fn time_travel_rounds() {
    let rounds = sym::param(0) as usize;
    let a = Rep::new();
    a.m.update(doc_with(&["a", "b"], &["x".to_string(), "y".to_string()], "t")).unwrap();
    a.m.commit(None).unwrap();
    let mut a = a;
    let mut b = Rep::new();
    b.pull(&a);
    let mut points: Vec<(BTreeSet<DeltaId>, String)> = vec![(a.m.get_anchors(), state(&a.m))];
    for r in 0..rounds {
        let va = format!("p{}", r);
        let vb = format!("q{}", r);
        a.m.update(doc_with(&["a", "b"], &[va, "y".to_string()], "t")).unwrap();
        a.m.commit(None).unwrap();
        points.push((a.m.get_anchors(), state(&a.m)));
        b.m.update(doc_with(&["a", "b"], &["x".to_string(), vb], "t")).unwrap();
        b.m.commit(None).unwrap();
        let a0 = a.snapshot();
        a.pull(&b);
        b.pull(&a0);
        points.push((a.m.get_anchors(), state(&a.m)));
    }
    let latest = state(&a.m);
    let i = sym::choose(points.len());
    let (heads, recorded) = points[i].clone();
    a.m.reload_until(&heads).expect("reload_until");
    assert!(a.m.get_anchors() == heads, "heads after time travel are not the chosen blocks");
    let st = state(&a.m);
    if st != recorded {
        sym::debug_str("travelled", &st);
        sym::debug_str("recorded ", &recorded);
    }
    assert!(st == recorded, "time travel does not show the state the replica had at those heads");
    for (id, r, p, v) in revisions_of(&a.m) {
        assert!(a.m.get_value(&id, Some(&r)).expect("value") == v, "historical value not retrievable");
        assert!(a.m.get_parent_revision(&id, &r).expect("parent") == p, "historical parent not retrievable");
    }
    let fresh = Melda::new_until(a.ad.clone(), &heads).expect("new_until");
    assert!(state(&fresh) == recorded, "new_until differs from the recorded state");
    a.m.reload().expect("reload");
    assert!(state(&a.m) == latest, "plain reload after time travel does not return to the latest state");
    sym::reach(1);
}
