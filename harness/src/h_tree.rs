//! Revision-tree kernels: C05 (winner / leaves / conflicts follow the stated rule, independent of the
//! order in which revisions were learned), C01-S1 (same), C15-S1 (unstage / commit exactness).
use crate::sym;
use melda::verif::{Revision, RevisionTree};
use std::cmp::Ordering;

pub const ALNUM: usize = 6;

/// one-character digest; class 6 = [0-9a-z] (includes the reserved d / r / e), class 8 = {a, b, r}
fn digest() -> String {
    sym::string(sym::param(1) as usize, 1, 1)
}

/// the stated order: resolution markers lowest, then index, then byte-wise identifier text
fn spec_cmp(a: &Revision, b: &Revision) -> Ordering {
    let (ra, rb) = (a.digest() == "r", b.digest() == "r");
    if ra != rb {
        return if ra { Ordering::Less } else { Ordering::Greater };
    }
    if !ra && a.index() != b.index() {
        return if a.index() < b.index() { Ordering::Less } else { Ordering::Greater };
    }
    a.to_string().as_bytes().cmp(b.to_string().as_bytes())
}

/// n change records (revision, parent): creations, children of earlier records (update / deletion /
/// resolution marker) and children of a parent that is never recorded (dangling)
pub fn records(n: usize) -> Vec<(Revision, Option<Revision>)> {
    let mut recs: Vec<(Revision, Option<Revision>)> = Vec::new();
    for i in 0..n {
        let k = sym::choose(2 + 4 * i);
        if k == 0 {
            recs.push((Revision::new(1u32, digest(), None), None));
        } else if k == 1 {
            // child of a revision that is not recorded
            // (the unrecorded parent is either an update or itself a creation revision)
            let base = Revision::new(1u32, "g", None);
            let ghost = if sym::any_bool() { base } else { Revision::new_updated(digest(), &base) };
            recs.push((Revision::new_updated(digest(), &ghost), Some(ghost)));
        } else {
            let j = (k - 2) / 4;
            let p = recs[j].0.clone();
            let r = match (k - 2) % 4 {
                0 => Revision::new_updated(digest(), &p),
                1 => Revision::new_deleted(&p),
                2 => Revision::new_resolved(&p),
                // a long history compressed into one record: the index passes 10, where the numeric and the textual
                // order of the identifiers disagree
                _ => Revision::new(p.index() + 9, digest(), Some(&p)),
            };
            recs.push((r, Some(p)));
        }
    }
    recs
}

fn permutation(n: usize) -> Vec<usize> {
    let mut rest: Vec<usize> = (0..n).collect();
    let mut out = Vec::new();
    while !rest.is_empty() {
        let c = sym::choose(rest.len());
        out.push(rest.remove(c));
    }
    out
}

/// first record wins for a duplicated revision (unvalidated_add ignores re-delivery)
fn dedup(recs: &[(Revision, Option<Revision>)]) -> Vec<(Revision, Option<Revision>)> {
    let mut out: Vec<(Revision, Option<Revision>)> = Vec::new();
    for (r, p) in recs {
        if !out.iter().any(|(q, _)| q == r) {
            out.push((r.clone(), p.clone()));
        }
    }
    out
}

fn is_live(recs: &[(Revision, Option<Revision>)], r: &Revision) -> bool {
    let mut cur = r.clone();
    loop {
        match recs.iter().find(|(q, _)| *q == cur) {
            None => return false,
            Some((q, None)) => return q.index() == 1,
            Some((_, Some(p))) => cur = p.clone(),
        }
    }
}

fn spec_leaves(recs: &[(Revision, Option<Revision>)]) -> Vec<Revision> {
    let mut out = Vec::new();
    for (r, _) in recs {
        if r.digest() == "r" {
            continue;
        }
        if recs.iter().any(|(_, p)| p.as_ref() == Some(r)) {
            continue;
        }
        if is_live(recs, r) {
            out.push(r.clone());
        }
    }
    out
}

fn check_against_spec(t: &RevisionTree, recs: &[(Revision, Option<Revision>)]) {
    let leaves = spec_leaves(recs);
    let got = t.get_leafs();
    assert!(got.len() == leaves.len(), "number of live leaves differs from the rule");
    for l in &leaves {
        assert!(got.contains(l), "a live leaf is missing");
    }
    let mut best: Option<&Revision> = None;
    for l in &leaves {
        if best.map_or(true, |b| spec_cmp(l, b) == Ordering::Greater) {
            best = Some(l);
        }
    }
    assert!(t.get_winner() == best, "winner is not the greatest live leaf");
    sym::observe_i64(leaves.len() as i64);
    if let Some(w) = t.get_winner() {
        sym::observe_str(&w.to_string());
    }
}

/// params: [n, digest class, hash-order mode for the second tree]. C05 + C01-S1: the tree built incrementally by `add` in an arbitrary order of
/// learning and the tree built by unvalidated_add in the opposite order (+ one re-delivery) + validate
/// both equal the rule.
pub fn tree_rule() {
    let n = sym::param(0) as usize;
    let recs = records(n);
    let order = permutation(n);
    sym::hash_order(0);
    let mut a = RevisionTree::new();
    for i in &order {
        a.add(recs[*i].0.clone(), recs[*i].1.clone(), false);
    }
    let spec = dedup(&order.iter().map(|i| recs[*i].clone()).collect::<Vec<_>>());
    check_against_spec(&a, &spec);
    sym::hash_order(sym::param(2) as usize);
    let mut b = RevisionTree::new();
    for i in order.iter().rev() {
        b.unvalidated_add(recs[*i].0.clone(), recs[*i].1.clone(), false);
    }
    if n > 0 && sym::any_bool() {
        b.unvalidated_add(recs[0].0.clone(), recs[0].1.clone(), false);
    }
    b.validate();
    // a duplicated revision keeps the parent of the record that arrived first; the rule is evaluated on
    // that set of records
    let spec_b = dedup(&order.iter().rev().map(|i| recs[*i].clone()).collect::<Vec<_>>());
    check_against_spec(&b, &spec_b);
    if spec_b.iter().all(|(r, p)| spec.iter().any(|(q, pq)| q == r && pq == p)) {
        assert!(a.get_winner() == b.get_winner(), "winner depends on the order of learning");
        assert!(a.get_leafs() == b.get_leafs(), "leaf set depends on the order of learning");
    }
    sym::reach(1);
}

/// params: [n committed, digest class, k staged]. C15-S1: unstage restores exactly the committed tree; commit clears
/// every staged flag and changes nothing else.
pub fn tree_stage() {
    let n = sym::param(0) as usize;
    let k = sym::param(2) as usize;
    let recs = records(n + k);
    sym::hash_order(0);
    let mut t = RevisionTree::new();
    for (r, p) in &recs[..n] {
        t.add(r.clone(), p.clone(), false);
    }
    let before = t.clone();
    assert!(!t.has_staging(), "staging flag set without staged revisions");
    let mut added = 0;
    for (r, p) in &recs[n..] {
        if t.add(r.clone(), p.clone(), true) {
            added += 1;
        }
    }
    assert!(t.has_staging() == (added > 0), "has_staging wrong after staging");
    check_against_spec(&t, &dedup(&recs));
    if sym::any_bool() {
        // discard
        sym::hash_order(1);
        t.unstage();
        sym::hash_order(0);
        assert!(!t.has_staging(), "staged after unstage");
        assert!(t.get_revisions().len() == before.get_revisions().len(), "unstage changed the number of revisions");
        for (r, e) in before.get_revisions() {
            let e2 = t.get_revisions().get(r).expect("unstage dropped a committed revision");
            assert!(e2.get_parent() == e.get_parent() && !e2.is_staging(), "unstage changed a committed entry");
        }
        assert!(t.get_leafs() == before.get_leafs(), "unstage did not restore the leaves");
        assert!(t.get_winner() == before.get_winner(), "unstage did not restore the winner");
    } else {
        // commit
        let staged = t.clone();
        sym::hash_order(1);
        t.commit();
        sym::hash_order(0);
        assert!(!t.has_staging(), "staged after commit");
        assert!(t.get_revisions().len() == staged.get_revisions().len(), "commit changed the number of revisions");
        for (r, e) in staged.get_revisions() {
            let e2 = t.get_revisions().get(r).expect("commit dropped a revision");
            assert!(e2.get_parent() == e.get_parent() && !e2.is_staging(), "commit left a staged flag or changed a parent");
        }
        assert!(t.get_leafs() == staged.get_leafs() && t.get_winner() == staged.get_winner(), "commit changed leaves or winner");
        // a later unstage must not drop what was committed
        t.unstage();
        assert!(t.get_revisions().len() == staged.get_revisions().len(), "unstage after commit dropped revisions");
    }
    sym::reach(1);
}
