pub mod h_c06;
pub mod h_c16;
pub mod h_c19;
pub mod h_tree;
pub mod h_pack;
pub mod h_melda;
pub mod h_c08;
pub mod h_c18;
pub mod h_c11;
pub mod h_c09;
pub mod h_c02;
pub mod h_c12;
pub mod h_hist;
pub mod h_c03;
pub mod h_c04;
pub mod h_c15;
pub mod h_c10;
pub mod h_c07;
pub mod sym;

pub fn dispatch(name: &str) -> bool {
    match name {
        "h_c06::merge_pair" => h_c06::merge_pair(),
        "h_c16::diff_roundtrip" => h_c16::diff_roundtrip(),
        "h_c19::order_triple" => h_c19::order_triple(),
        "h_tree::tree_rule" => h_tree::tree_rule(),
        "h_pack::pack_roundtrip" => h_pack::pack_roundtrip(),
        "h_melda::smoke" => h_melda::smoke(),
        "h_c18::independent" => h_c18::independent(),
        "h_c18::converge" => h_c18::converge(),
        "h_c18::concurrent_creations" => h_c18::concurrent_creations(),
        "h_c11::content_addressed" => h_c11::content_addressed(),
        "h_c11::adapter_contract" => h_c11::adapter_contract(),
        "h_c09::commit_faults" => h_c09::commit_faults(),
        "h_c09::meld_faults" => h_c09::meld_faults(),
        "h_c02::delivery" => h_c02::delivery(),
        "h_c02::dedup_across_packs" => h_c02::dedup_across_packs(),
        "h_c12::merged_arrays" => h_c12::merged_arrays(),
        "h_c12::maintenance" => h_c12::maintenance(),
        "h_c12::update_in_conflict" => h_c12::update_in_conflict(),
        "h_c12::nested_arrays" => h_c12::nested_arrays(),
        "h_c12::resolve_array_conflict" => h_c12::resolve_array_conflict(),
        "h_hist::commit_graph" => h_hist::commit_graph(),
        "h_hist::time_travel" => h_hist::time_travel(),
        "h_hist::time_travel_rounds" => h_hist::time_travel_rounds(),
        "h_c03::commit_reopen" => h_c03::commit_reopen(),
        "h_c04::update_read" => h_c04::update_read(),
        "h_c04::array_chain" => h_c04::array_chain(),
        "h_c04::observer_chain" => h_c04::observer_chain(),
        "h_c04::resubmit_in_conflict" => h_c04::resubmit_in_conflict(),
        "h_c15::stage_roundtrip" => h_c15::stage_roundtrip(),
        "h_c10::junk_item" => h_c10::junk_item(),
        "h_c10::damaged_item" => h_c10::damaged_item(),
        "h_c07::resolve_object" => h_c07::resolve_object(),
        "h_c07::resolve_both" => h_c07::resolve_both(),
        "h_c07::resolve_three" => h_c07::resolve_three(),
        "h_c10::damaged_merge" => h_c10::damaged_merge(),
        "h_c10::live_damage" => h_c10::live_damage(),
        "h_c08::commit_with_array_conflict" => h_c08::commit_with_array_conflict(),
        "h_c08::all_operations" => h_c08::all_operations(),
        "h_tree::tree_stage" => h_tree::tree_stage(),
        "h_c19::order_pair" => h_c19::order_pair(),
        "h_c19::print_parse" => h_c19::print_parse(),
        "h_c19::digest_pure" => h_c19::digest_pure(),
        _ => return false,
    }
    true
}
