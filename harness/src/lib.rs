pub mod h_c06;
pub mod h_c16;
pub mod sym;

pub fn dispatch(name: &str) -> bool {
    match name {
        "h_c06::merge_pair" => h_c06::merge_pair(),
        "h_c16::diff_roundtrip" => h_c16::diff_roundtrip(),
        _ => return false,
    }
    true
}
