//! C12 (maintenance operations never change the visible document) and C06 at the Melda level (concurrent
//! edits of flattened arrays merge without loss or duplication).
use crate::h_melda::*;
use crate::sym;
use serde_json::{json, Map, Value};

/// (items♭, more♭) versions over the universe {a, b, c, d}; the base is version 0
const VERS: [(&[&str], &[&str]); 10] = [
    (&["a", "b"], &["c"]),
    (&["a", "d", "b"], &["c"]),
    (&["a", "c", "b"], &[]),
    (&["d", "a", "b"], &["c"]),
    (&["b"], &["c", "a"]),
    (&["a", "b"], &["c", "d"]),
    (&["b", "a"], &["c"]),
    (&["a"], &["c"]),
    (&["a", "b", "c"], &[]),
    (&["a", "b"], &[]),
];

/// the element written "d" in VERS is a new element whose identifier is chosen by the editing replica
fn subst(ids: &[&str], newid: &str) -> Vec<String> {
    ids.iter().map(|id| if *id == "d" { newid.to_string() } else { id.to_string() }).collect()
}

fn elems(ids: &[String]) -> Value {
    Value::from(ids.iter().map(|id| json!({"_id": id.clone(), "v": "x"})).collect::<Vec<Value>>())
}

fn version(i: usize, newid: &str) -> Map<String, Value> {
    let mut m = Map::new();
    m.insert("items♭".to_string(), elems(&subst(VERS[i].0, newid)));
    m.insert("more♭".to_string(), elems(&subst(VERS[i].1, newid)));
    m
}

/// identifier of a new element: concrete "d" or (symbolic mode) any lower-case letter other than a, b, c
fn new_id(symbolic: bool) -> String {
    if !symbolic {
        return "d".to_string();
    }
    let s = sym::string(LOWER, 1, 1);
    sym::assume(s != "a" && s != "b" && s != "c");
    s
}

fn ids_of(d: &Map<String, Value>, key: &str) -> Vec<String> {
    d.get(key).and_then(|v| v.as_array()).map(|a| a.iter().map(|o| o["_id"].as_str().unwrap().to_string()).collect()).unwrap_or_default()
}

fn in_version(i: usize, newid: &str, x: &str) -> bool {
    subst(VERS[i].0, newid).iter().any(|y| y == x) || subst(VERS[i].1, newid).iter().any(|y| y == x)
}

/// two replicas edit the arrays concurrently and exchange; returns the replicas and the chosen versions
pub struct Conc {
    a: Rep,
    b: Rep,
    va: usize,
    vb: usize,
    ida: String,
    idb: String,
    /// (array descriptor id, revision) of each replica's own version before the exchange
    leaf_a: Vec<(String, String)>,
    leaf_b: Vec<(String, String)>,
}

fn array_leaves(m: &melda::melda::Melda) -> Vec<(String, String)> {
    let mut out = Vec::new();
    for id in m.get_all_objects() {
        if id.starts_with('^') {
            if let Ok(w) = m.get_winner(&id) {
                out.push((id, w));
            }
        }
    }
    out
}

fn concurrent(k: usize, symbolic: bool) -> Conc {
    let (mut a, mut b) = base_pair(version(0, "d"));
    let va = sym::choose(k);
    let vb = sym::choose(k);
    let ida = new_id(symbolic);
    let idb = new_id(symbolic);
    a.m.update(version(va, &ida)).expect("update a");
    a.m.commit(None).expect("commit a");
    b.m.update(version(vb, &idb)).expect("update b");
    b.m.commit(None).expect("commit b");
    let leaf_a = array_leaves(&a.m);
    let leaf_b = array_leaves(&b.m);
    a.pull(&b);
    b.pull(&a);
    Conc { a, b, va, vb, ida, idb, leaf_a, leaf_b }
}

/// the merged document: every surviving element exactly once over both arrays, deleted ones never, and the
/// relative order of each version kept where the versions do not disagree
fn check_merged(c: &Conc, d: &Map<String, Value>) {
    let items = ids_of(d, "items♭");
    let more = ids_of(d, "more♭");
    let mut universe = vec!["a".to_string(), "b".to_string(), "c".to_string(), c.ida.clone()];
    if c.idb != c.ida {
        universe.push(c.idb.clone());
    }
    for x in &universe {
        let in_base = in_version(0, "", x);
        let (ina, inb) = (in_version(c.va, &c.ida, x), in_version(c.vb, &c.idb, x));
        // an object is deleted if one side removed it from the document (values are never edited here)
        let alive = if in_base { ina && inb } else { ina || inb };
        let count = items.iter().filter(|y| *y == x).count() + more.iter().filter(|y| *y == x).count();
        if alive {
            assert!(count == 1, "a surviving element does not appear exactly once");
        } else {
            assert!(count == 0, "an element whose object was deleted (or never existed) appears");
        }
    }
    for key in ["items♭", "more♭"] {
        let merged = if key == "items♭" { &items } else { &more };
        let (oa, ob) = if key == "items♭" { (subst(VERS[c.va].0, &c.ida), subst(VERS[c.vb].0, &c.idb)) } else { (subst(VERS[c.va].1, &c.ida), subst(VERS[c.vb].1, &c.idb)) };
        let mut disagree = false;
        for x in oa.iter() {
            for y in oa.iter() {
                if let (Some(px), Some(py), Some(qx), Some(qy)) = (pos(&oa, x), pos(&oa, y), pos(&ob, x), pos(&ob, y)) {
                    if (px < py) != (qx < qy) {
                        disagree = true;
                    }
                }
            }
        }
        if !disagree {
            for o in [&oa, &ob] {
                for x in o.iter() {
                    for y in o.iter() {
                        if let (Some(px), Some(py), Some(mx), Some(my)) = (pos(o, x), pos(o, y), pos(merged, x), pos(merged, y)) {
                            assert!((px < py) == (mx < my), "relative order of a version not preserved although the versions do not disagree");
                        }
                    }
                }
            }
        }
    }
}

/// params: [k versions, symbolic identifiers of new elements (0/1)]. C06-S2
pub fn merged_arrays() {
    let k = sym::param(0) as usize;
    let mut c = concurrent(k, sym::param(1) != 0);
    let d = c.a.m.read(None).expect("read a");
    sym::observe_str(&serde_json::to_string(&d).unwrap());
    assert!(c.b.m.read(None).expect("read b") == d, "replicas read different documents after exchange");
    check_merged(&c, &d);
    // the merge survives a commit on one replica (which resolves the arrays) and its propagation
    let mut d1 = d.clone();
    d1.insert("x".to_string(), Value::from(1));
    c.a.m.update(d1).expect("update merged");
    c.a.m.commit(None).expect("commit merged");
    let pulled = {
        let (a, b) = (&c.a, &mut c.b);
        b.pull(a);
        b.m.read(None).expect("read b after propagation")
    };
    check_merged(&c, &pulled);
    for key in ["items♭", "more♭"] {
        assert!(ids_of(&pulled, key) == ids_of(&d, key), "the merged order changed when the merge was committed and propagated");
    }
    assert!(c.a.reopen().read(None).expect("read reopened") == pulled, "reopened replica and receiving replica read different documents");
    sym::reach(1);
}

fn pos(v: &[String], x: &str) -> Option<usize> {
    v.iter().position(|y| y == x)
}

/// params: [k versions, symbolic identifiers of new elements (0/1)]. C12
pub fn maintenance() {
    let k = sym::param(0) as usize;
    if sym::param(2) != 0 {
        sym::set_env("MELDA_ARRAYDESCRIPTORS_CACHE_CAP", 1);
        sym::set_env("MELDA_DATA_CACHE_CAP", 1);
    }
    let c = concurrent(k, sym::param(1) != 0);
    let (a, b) = (c.a, c.b);
    let d0 = a.m.read(None).expect("read");
    sym::observe_i64(a.m.in_conflict().len() as i64);
    // meld without refresh touches storage only
    let st0 = state(&a.m);
    a.m.meld(&b.m).expect("meld");
    assert!(a.m.read(None).unwrap() == d0, "meld without refresh changed the document");
    assert!(state(&a.m) == st0, "meld without refresh changed the replica's state");
    match sym::choose(5) {
        4 => {
            // something unrelated staged through the per-object API, commit (resolves the arrays although they are not
            // staged), then an edit of an array, commit, reload
            let mut o = Map::new();
            o.insert("v".to_string(), Value::from("n"));
            a.m.update_object("b", o).expect("update_object");
            let r1 = a.m.read(None).unwrap();
            a.m.commit(None).expect("commit");
            assert!(a.m.read(None).unwrap() == r1, "commit changed the document");
            let mut d2 = r1.clone();
            d2.remove("_id");
            if let Some(Value::Array(items)) = d2.get_mut("items♭") {
                items.push(json!({"_id": "late", "v": "x"}));
            }
            a.m.update(d2).expect("update");
            let r2 = a.m.read(None).unwrap();
            a.m.commit(None).expect("commit");
            assert!(a.m.read(None).unwrap() == r2, "commit changed the document");
            let mut a = a;
            a.m.reload().expect("reload");
            assert!(a.m.read(None).unwrap() == r2, "reload (nothing new in storage) changed the document");
        }
        0 => {
            // nothing unapplied in storage: refresh and reload are no-ops for the document
            let mut a = a;
            a.m.refresh().expect("refresh");
            assert!(a.m.read(None).unwrap() == d0, "idle refresh changed the document");
            a.m.reload().expect("reload");
            assert!(a.m.read(None).unwrap() == d0, "idle reload changed the document");
        }
        1 => {
            // full snapshot of the arrays, then commit of the snapshot
            a.m.stage_full_snapshot().expect("snapshot");
            assert!(a.m.read(None).unwrap() == d0, "stage_full_snapshot changed the document");
            a.m.commit(None).expect("commit snapshot");
            assert!(a.m.read(None).unwrap() == d0, "committing a snapshot changed the document");
            assert!(a.reopen().read(None).unwrap() == d0, "reopened replica reads a different document after snapshot + commit");
        }
        2 => {
            // a user edit on top of the merged view, then commit (with automatic array resolution)
            let mut d1 = d0.clone();
            d1.insert("x".to_string(), Value::from(1));
            a.m.update(d1.clone()).expect("update");
            let r1 = a.m.read(None).unwrap();
            a.m.commit(None).expect("commit");
            assert!(a.m.read(None).unwrap() == r1, "commit (with automatic array resolution) changed the document");
            assert!(a.reopen().read(None).unwrap() == r1, "reopened replica reads a different document after commit");
            a.m.reload().expect("reload");
            assert!(a.m.read(None).unwrap() == r1, "reload after commit (nothing new in storage) changed the document");
        }
        _ => {
            // commit with nothing staged
            assert!(a.m.commit(None).expect("commit").is_none(), "idle commit produced a block");
            assert!(a.m.read(None).unwrap() == d0, "idle commit changed the document");
        }
    }
    sym::reach(1);
}

/// C04 while a flattened array is in conflict: every object of the submitted document appears exactly once with
/// the submitted content and nothing else appears. params: [k versions]
pub fn update_in_conflict() {
    let k = sym::param(0) as usize;
    let c = concurrent(k, false);
    let a = c.a;
    let vc = sym::choose(k);
    let d = version(vc, "d");
    a.m.update(d.clone()).expect("update while arrays are in conflict");
    let r = a.m.read(None).expect("read");
    let mut seen: Vec<String> = ids_of(&r, "items♭");
    seen.extend(ids_of(&r, "more♭"));
    let mut submitted: Vec<String> = ids_of(&d, "items♭");
    submitted.extend(ids_of(&d, "more♭"));
    for x in &submitted {
        assert!(seen.iter().filter(|y| *y == x).count() == 1, "a submitted object does not appear exactly once");
    }
    for x in &seen {
        assert!(submitted.contains(x), "an object that was not submitted appears");
    }
    // and after the commit (which resolves the arrays) the document is exactly the submitted one
    a.m.commit(None).expect("commit");
    let r2 = a.m.read(None).expect("read after commit");
    let mut seen2: Vec<String> = ids_of(&r2, "items♭");
    seen2.extend(ids_of(&r2, "more♭"));
    for x in &submitted {
        assert!(seen2.iter().filter(|y| *y == x).count() == 1, "a submitted object does not appear exactly once after commit");
    }
    assert!(seen2.len() == submitted.len(), "objects that were not submitted appear after commit");
    sym::reach(1);
}

/// C07 for flattened arrays: an array descriptor in conflict is resolved in favour of each of its live leaves.
/// params: [k versions]
pub fn resolve_array_conflict() {
    let k = sym::param(0) as usize;
    let c = concurrent(k, false);
    let (leaf_a, leaf_b, va, vb) = (c.leaf_a.clone(), c.leaf_b.clone(), c.va, c.vb);
    let (a, mut b) = (c.a, c.b);
    let arrays: Vec<String> = a.m.in_conflict().into_iter().filter(|id| id.starts_with('^')).collect();
    if arrays.is_empty() {
        sym::reach(2);
        return;
    }
    let id = arrays[sym::choose(arrays.len())].clone();
    let winner = a.m.get_winner(&id).expect("winner");
    let mut leaves: Vec<String> = a.m.get_conflicting(&id).expect("conflicting").into_iter().collect();
    leaves.push(winner.clone());
    let chosen = leaves[sym::choose(leaves.len())].clone();
    let before = a.m.read(None).expect("read before");
    a.m.resolve_as(&id, &chosen).expect("resolve_as on an array descriptor");
    assert!(!a.m.in_conflict().contains(&id), "array still in conflict after resolve_as");
    assert!(a.m.get_conflicting(&id).unwrap().is_empty(), "conflicting revisions remain after resolve_as");
    let after = a.m.read(None).expect("read after");
    if chosen == winner {
        assert!(after == before, "choosing the current winner changed the document");
    }
    // every surviving element is still there exactly once (no loss through the resolution)
    for key in ["items♭", "more♭"] {
        let ids = ids_of(&after, key);
        for (i, x) in ids.iter().enumerate() {
            assert!(!ids[i + 1..].contains(x), "an element appears twice after resolving the array");
        }
    }
    // the visible array is the state at the chosen revision: the elements of the chosen replica's own version keep the
    // relative order that version gave them
    let own = if leaf_a.iter().any(|(i, r)| *i == id && *r == chosen) {
        Some(va)
    } else if leaf_b.iter().any(|(i, r)| *i == id && *r == chosen) {
        Some(vb)
    } else {
        None
    };
    if let Some(v) = own {
        let key = if id.contains("items") { "items♭" } else { "more♭" };
        let order = subst(if key == "items♭" { VERS[v].0 } else { VERS[v].1 }, "d");
        let shown = ids_of(&after, key);
        for x in order.iter() {
            for y in order.iter() {
                if let (Some(px), Some(py), Some(sx), Some(sy)) = (pos(&order, x), pos(&order, y), pos(&shown, x), pos(&shown, y)) {
                    assert!((px < py) == (sx < sy), "the resolved array does not show the order of the chosen revision");
                }
            }
        }
    }
    let count = |d: &Map<String, Value>| ids_of(d, "items♭").len() + ids_of(d, "more♭").len();
    assert!(count(&after) == count(&before), "resolving an array conflict lost or invented elements");
    a.m.commit(None).expect("commit").expect("resolution produced no block");
    assert!(a.m.read(None).unwrap() == after, "commit changed the resolved document");
    b.pull(&a);
    assert!(same_state(&b.m, &a.m), "array resolution did not propagate");
    sym::reach(1);
}

/// C06 with nested flattened arrays: element x of the outer array owns an inner array. Replica a removes x (with its
/// inner array and elements), replica b concurrently edits x and inserts a new element into the inner array.
/// One replica appends to the array and then drops it (its deletion of the descriptor has the longer history), the
/// other appends an element and edits the root twice (its root wins and still references the array). After exchange
/// the document shows what survives; an unrelated edit + commit (automatic resolution), a reload and the propagation
/// must not change it.
pub fn dropped_array_wins() {
    let (mut a, mut b) = base_pair(doc_with(&["a", "b"], &["x".to_string(), "y".to_string()], "t0"));
    a.m.update(doc_with(&["a", "b", "p"], &["x".to_string(), "y".to_string(), val()], "t0")).unwrap();
    if sym::any_bool() {
        a.m.commit(None).unwrap();
    }
    let mut d = Map::new();
    d.insert("title".to_string(), Value::from("t0"));
    a.m.update(d).unwrap();
    a.m.commit(None).unwrap();
    b.m.update(doc_with(&["a", "b", "c"], &["x".to_string(), "y".to_string(), "z".to_string()], "t1")).unwrap();
    b.m.commit(None).unwrap();
    b.m.update(doc_with(&["a", "b", "c"], &["x".to_string(), "y".to_string(), "z".to_string()], "t2")).unwrap();
    b.m.commit(None).unwrap();
    b.pull(&a);
    let before = b.m.read(None).expect("read");
    sym::observe_str(&serde_json::to_string(&before).unwrap());
    assert!(b.reopen().read(None).expect("read reopened") == before, "reopened replica reads a different document");
    let mut o = Map::new();
    o.insert("text".to_string(), Value::from("hello"));
    b.m.create_object("note", o).expect("create_object");
    assert!(b.m.read(None).unwrap() == before, "an unrelated object changed the document");
    b.m.commit(None).unwrap().expect("block");
    assert!(b.m.read(None).unwrap() == before, "commit (automatic resolution) changed the document");
    b.m.reload().expect("reload");
    assert!(b.m.read(None).unwrap() == before, "reload changed the document");
    a.pull(&b);
    assert!(a.m.read(None).unwrap() == before, "the other replica reads a different document after the resolution was propagated");
    sym::reach(1);
}

const CHAIN: [&[&str]; 5] = [&["a", "b", "n"], &["b", "n"], &["a", "n"], &["b"], &["n", "a", "b"]];

/// params: []. Each replica submits two versions of the array in a row (chosen among 5, its own new element n = p / q)
/// and commits; exchange; every surviving element appears exactly once on both replicas, also after an edit + commit
/// (automatic resolution) and its propagation. Covers concurrent leaves whose last edit scripts are byte-identical.
pub fn edit_chains() {
    let (mut a, mut b) = base_pair(doc_with(&["a", "b"], &["x".to_string(), "x".to_string()], "t"));
    let mk = |o: &[&str], n: &str| -> Map<String, Value> {
        let ids: Vec<&str> = o.iter().map(|x| if *x == "n" { n } else { *x }).collect();
        let vals: Vec<String> = ids.iter().map(|_| "x".to_string()).collect();
        doc_with(&ids, &vals, "t")
    };
    let (a1, a2) = (CHAIN[sym::choose(5)], CHAIN[sym::choose(5)]);
    let (b1, b2) = (CHAIN[sym::choose(5)], CHAIN[sym::choose(5)]);
    a.m.update(mk(a1, "p")).unwrap();
    a.m.update(mk(a2, "p")).unwrap();
    a.m.commit(None).unwrap();
    b.m.update(mk(b1, "q")).unwrap();
    b.m.update(mk(b2, "q")).unwrap();
    b.m.commit(None).unwrap();
    let a0 = a.snapshot();
    a.pull(&b);
    b.pull(&a0);
    let check = |d: &Map<String, Value>| {
        let items = ids_of(d, "items♭");
        for x in ["a", "b", "p", "q"] {
            let in_a = a2.iter().any(|y| if *y == "n" { x == "p" } else { *y == x });
            let in_b = b2.iter().any(|y| if *y == "n" { x == "q" } else { *y == x });
            let alive = if x == "a" || x == "b" { in_a && in_b } else { in_a || in_b };
            let count = items.iter().filter(|y| *y == x).count();
            // a base element dropped by the first version and submitted again by the second is a re-creation on top of the
            // deletion: it may legitimately outlive the other replica's deletion (longer history wins)
            let back = (x == "a" || x == "b") && ((in_a && !a1.iter().any(|y| *y == x)) || (in_b && !b1.iter().any(|y| *y == x)));
            if back {
                assert!(count <= 1, "an element appears twice after chains of edits");
            } else if alive {
                assert!(count == 1, "a surviving element does not appear exactly once after chains of edits");
            } else {
                assert!(count == 0, "a deleted element appears after chains of edits");
            }
        }
    };
    let da = a.m.read(None).expect("read a");
    let db = b.m.read(None).expect("read b");
    check(&da);
    assert!(da == db, "replicas holding the same blocks read different documents");
    assert!(a.reopen().read(None).expect("read reopened") == da, "reopened replica reads a different document");
    // an unrelated edit + commit resolves the array automatically
    let mut d = da.clone();
    d.insert("x".to_string(), Value::from(1));
    a.m.update(d).unwrap();
    a.m.commit(None).unwrap();
    let da2 = a.m.read(None).expect("read a");
    check(&da2);
    b.pull(&a);
    let db2 = b.m.read(None).expect("read b");
    check(&db2);
    assert!(da2 == db2, "replicas differ after the automatic resolution was propagated");
    sym::reach(1);
}

pub fn nested_arrays() {
    let base = obj(json!({"outer♭": [{"_id": "x", "name": "n", "kids♭": [{"_id": "k1", "v": "x"}]}, {"_id": "y", "name": "m"}]}));
    let (mut a, mut b) = base_pair(base);
    a.m.update(obj(json!({"outer♭": [{"_id": "y", "name": "m"}]}))).expect("update a");
    a.m.commit(None).expect("commit a");
    let name = sym::string(LOWER, 1, 1);
    b.m.update(obj(json!({"outer♭": [{"_id": "y", "name": "m"}, {"_id": "x", "name": name, "kids♭": [{"_id": "k1", "v": "x"}, {"_id": "k2", "v": "x"}]}]}))).expect("update b");
    b.m.commit(None).expect("commit b");
    a.pull(&b);
    b.pull(&a);
    let d = a.m.read(None).expect("read a");
    assert!(b.m.read(None).expect("read b") == d, "replicas read different documents after exchange");
    let outer = d.get("outer♭").and_then(|v| v.as_array()).cloned().unwrap_or_default();
    let ids: Vec<String> = outer.iter().map(|o| o["_id"].as_str().unwrap().to_string()).collect();
    assert!(ids.iter().filter(|i| *i == "y").count() == 1, "y does not appear exactly once");
    let x_alive = a.m.get_value("x", None).map(|v| !v.contains_key("_deleted")).unwrap_or(false);
    sym::observe_bool(x_alive);
    if x_alive {
        // x survives (b's edit won): it appears once and its inner array shows every surviving element once
        assert!(ids.iter().filter(|i| *i == "x").count() == 1, "surviving element x does not appear exactly once");
        let x = outer.iter().find(|o| o["_id"] == "x").unwrap();
        let kids: Vec<String> = x["kids♭"].as_array().cloned().unwrap_or_default().iter().map(|o| o["_id"].as_str().unwrap().to_string()).collect();
        assert!(kids.iter().filter(|k| *k == "k2").count() == 1, "element inserted concurrently into the inner array is lost");
        let k1_alive = a.m.get_value("k1", None).map(|v| !v.contains_key("_deleted")).unwrap_or(false);
        assert!(kids.iter().filter(|k| *k == "k1").count() == if k1_alive { 1 } else { 0 }, "inner element k1 not shown according to its liveness");
    } else {
        assert!(!ids.contains(&"x".to_string()), "deleted element x reappears");
    }
    // the result survives a commit and its propagation
    let mut d1 = d.clone();
    d1.remove("_id");
    d1.insert("t".to_string(), Value::from(1));
    a.m.update(d1).expect("update");
    let r1 = a.m.read(None).unwrap();
    a.m.commit(None).expect("commit");
    b.pull(&a);
    assert!(b.m.read(None).unwrap() == r1, "merged nested arrays change when committed and propagated");
    sym::reach(1);
}
