//! C18 (results do not depend on hash order, listing order, visiting order of the worker pool, cache sizes)
//! and C01 at the Melda level (replicas holding the same committed history converge).
use crate::h_melda::*;
use crate::sym;
use anyhow::Result;
use melda::adapter::Adapter;
use melda::melda::Melda;
use melda::memoryadapter::MemoryAdapter;
use serde_json::{Map, Value};
use std::any::Any;
use std::sync::{Arc, RwLock};

/// backend whose listing order is reversed (the contract does not fix any order)
pub struct ReverseListing {
    inner: MemoryAdapter,
    reverse: bool,
}

impl Adapter for ReverseListing {
    fn as_any(&self) -> &dyn Any {
        self
    }
    fn as_any_mut(&mut self) -> &mut dyn Any {
        self
    }
    fn read_object(&self, key: &str, offset: usize, length: usize) -> Result<Vec<u8>> {
        self.inner.read_object(key, offset, length)
    }
    fn write_object(&self, key: &str, data: &[u8]) -> Result<()> {
        self.inner.write_object(key, data)
    }
    fn list_objects(&self, ext: &str) -> Result<Vec<String>> {
        let mut l = self.inner.list_objects(ext)?;
        if self.reverse {
            l.reverse();
        }
        Ok(l)
    }
}

fn rep(reverse: bool) -> Rep {
    let ad: Ad = Arc::new(RwLock::new(Box::new(ReverseListing { inner: MemoryAdapter::new(), reverse })));
    Rep { m: Melda::new(ad.clone()).expect("Melda::new"), ad }
}

/// observable state without block identifiers (block bytes may legitimately depend on hash order)
pub fn visible(m: &Melda) -> String {
    let mut objs = Map::new();
    for id in m.get_all_objects() {
        let w = m.get_winner(&id).unwrap_or_else(|e| format!("ERR {}", e));
        let c: Vec<String> = m.get_conflicting(&id).map(|c| c.into_iter().collect()).unwrap_or_default();
        objs.insert(id, serde_json::json!([w, c]));
    }
    let doc = match m.read(None) {
        Ok(d) => Value::from(d),
        Err(e) => Value::from(format!("ERR {}", e)),
    };
    serde_json::to_string(&serde_json::json!({"objects": objs, "conflicts": m.in_conflict().into_iter().collect::<Vec<String>>(), "doc": doc})).unwrap()
}

/// one fixed history: two commits (the second optionally staged, discarded and staged again), a concurrent
/// edit on a second replica, exchange
fn history(d1: &Map<String, Value>, d2: &Map<String, Value>, d3: &Map<String, Value>, redo: bool, reverse: bool) -> String {
    let mut r = rep(reverse);
    r.m.update(d1.clone()).expect("update");
    r.m.commit(None).expect("commit");
    let mut b = rep(reverse);
    b.pull(&r);
    r.m.update(d2.clone()).expect("update");
    if redo {
        r.m.unstage().expect("unstage");
        r.m.update(d2.clone()).expect("update again");
    }
    r.m.commit(None).expect("commit");
    b.m.update(d3.clone()).expect("update b");
    b.m.commit(None).expect("commit b");
    r.pull(&b);
    b.pull(&r);
    // stray items with a block extension whose names are not block identifiers: one sorts before, one after the real ones
    r.ad.write().unwrap().write_object("journal.delta", b"{}").unwrap();
    r.ad.write().unwrap().write_object("0junk.delta", b"x").unwrap();
    r.m.refresh().expect("refresh with stray items in storage");
    let reopened = Melda::new(r.ad.clone()).expect("reopen");
    assert!(visible(&reopened) == visible(&r.m), "a replica reopened on the same storage differs (cache / order dependent durability)");
    format!("{} || {} || {}", visible(&r.m), visible(&reopened), visible(&b.m))
}

/// params: [k orders, reversed storage listing (0/1), symbolic values in the second document]. The same history is run twice: once with canonical orders and default cache sizes, once with
/// deviating hash / visiting orders, reversed storage listing and symbolic cache capacities 1..3.
pub fn independent() {
    let k = sym::param(0) as usize;
    let d1 = doc_with(&["a", "b"], &["x".to_string(), "y".to_string()], "t");
    let d2 = any_doc(k, sym::param(2) as usize);
    let d3 = doc_with(&["b", "a", "c"], &["x".to_string(), "x".to_string(), "z".to_string()], "t");
    let redo = sym::any_bool();
    sym::hash_order(0);
    sym::par_order(0);
    let reference = history(&d1, &d2, &d3, redo, false);
    let cap = sym::range(1, 3) as usize;
    sym::set_env("MELDA_ARRAYDESCRIPTORS_CACHE_CAP", cap);
    sym::set_env("MELDA_DATA_CACHE_CAP", cap);
    sym::hash_order(1);
    sym::par_order(1);
    let other = history(&d1, &d2, &d3, redo, sym::param(1) != 0);
    sym::hash_order(0);
    sym::par_order(0);
    if other != reference {
        sym::debug_str("reference", &reference);
        sym::debug_str("other    ", &other);
    }
    assert!(other == reference, "the outcome depends on hash order, visiting order, listing order or cache capacity");
    sym::reach(1);
}

/// C01-S2: a bounded symbolic sequence of operations (update, commit + reopen comparison, pull, unstage, delete_object,
/// stage_full_snapshot, resolve_as, reload) on two replicas, then exchange until nothing new arrives:
/// both replicas, a replica fed by plain file copy and a replica opened by one reload expose the same state.
/// params: [k orders, number of operations]
pub fn converge() {
    let k = sym::param(0) as usize;
    let n = sym::param(1) as usize;
    let (mut a, mut b) = base_pair(doc_with(&["a", "b"], &["x".to_string(), "y".to_string()], "t"));
    for _ in 0..n {
        match sym::choose(11) {
            0 => {
                a.m.update(any_doc(k, 0)).expect("update a");
            }
            1 => {
                b.m.update(any_doc(k, 0)).expect("update b");
            }
            2 => {
                if a.m.commit(None).expect("commit a").is_some() {
                    assert!(same_state(&a.reopen(), &a.m), "reopened replica differs after commit");
                }
            }
            3 => {
                b.m.commit(None).expect("commit b");
            }
            4 => {
                if !a.m.has_staging() {
                    a.pull(&b);
                }
            }
            5 => {
                if !b.m.has_staging() {
                    b.pull(&a);
                }
            }
            6 => {
                a.m.unstage().expect("unstage a");
            }
            7 => {
                a.m.delete_object("a").expect("delete_object");
            }
            8 => {
                a.m.stage_full_snapshot().expect("stage_full_snapshot");
            }
            9 => {
                // resolve the first object in conflict in favour of its winner
                if let Some(id) = a.m.in_conflict().into_iter().next() {
                    let w = a.m.get_winner(&id).expect("winner");
                    a.m.resolve_as(&id, &w).expect("resolve_as");
                }
            }
            _ => {
                if !a.m.has_staging() {
                    a.m.reload().expect("reload a");
                }
            }
        }
    }
    // only committed history counts
    a.m.unstage().expect("unstage a");
    b.m.unstage().expect("unstage b");
    // exchange until neither side learns anything new
    let mut rounds = 0;
    loop {
        let n1 = a.m.meld(&b.m).expect("meld a<-b").len();
        a.m.refresh().expect("refresh a");
        let n2 = b.m.meld(&a.m).expect("meld b<-a").len();
        b.m.refresh().expect("refresh b");
        rounds += 1;
        if n1 + n2 == 0 {
            break;
        }
        assert!(rounds < 4, "exchange does not reach a fixpoint");
    }
    assert!(same_state(&a.m, &b.m), "replicas holding the same committed history expose different states");
    // plain file copy (reverse listing order) + incremental refreshes; the copy may stop early, the rest then arrives
    // by a meld from the complete peer
    let mut c = Rep::new();
    {
        let src = a.ad.read().unwrap();
        let mut files = src.list_objects("").unwrap();
        files.reverse();
        // the copy stops after `stop` files; one incremental refresh happens after `mid` of them
        let stop = sym::choose(files.len() + 1);
        let mid = sym::choose(stop + 1);
        for (i, f) in files.iter().take(stop).enumerate() {
            c.ad.write().unwrap().write_object(f, &src.read_object(f, 0, 0).unwrap()).unwrap();
            if i + 1 == mid {
                c.m.refresh().expect("refresh c");
            }
        }
    }
    c.m.refresh().expect("refresh c");
    c.pull(&a);
    assert!(same_state(&c.m, &a.m), "a replica fed by file copy and meld exposes a different state");
    assert!(same_state(&c.reopen(), &a.m), "a replica opened by one reload exposes a different state");
    sym::reach(1);
}

/// C18 / C01: two writers that never talked store an identical payload (one pack covers the other). A relay melds from
/// both (either order, either listing order, optionally reopened) and a final replica is fed through the relay only:
/// it must see every object. params: [reversed listing on the relay]
pub fn relay_duplicates() {
    let a = Rep::new();
    a.m.create_object("xa", obj(serde_json::json!({"v": 1}))).unwrap();
    a.m.commit(None).unwrap().expect("block a");
    let b = Rep::new();
    b.m.create_object("xb", obj(serde_json::json!({"v": 1}))).unwrap();
    b.m.create_object("yb", obj(serde_json::json!({"w": 2}))).unwrap();
    b.m.commit(None).unwrap().expect("block b");
    let mut c = rep(sym::param(0) != 0);
    if sym::any_bool() {
        c.pull(&a);
        c.pull(&b);
    } else {
        c.pull(&b);
        c.pull(&a);
    }
    if sym::any_bool() {
        c = Rep { m: Melda::new(c.ad.clone()).expect("reopen relay"), ad: c.ad.clone() };
    }
    let mut d = Rep::new();
    d.pull(&c);
    let objs: Vec<String> = d.m.get_all_objects().into_iter().collect();
    for id in ["xa", "xb", "yb"] {
        assert!(objs.contains(&id.to_string()), "a replica fed through a relay misses an object");
        assert!(d.m.get_value(id, None).is_ok(), "a replica fed through a relay cannot read an object");
    }
    assert!(visible(&d.m) == visible(&c.m), "relay and final replica differ");
    sym::reach(1);
}

/// C18 / C01: three replicas concurrently insert different elements at the same position of one array (three leaves on
/// its descriptor). Every order of learning the three commits, a reopened replica and a run with a deviating hash
/// iteration show the same document and winners.
pub fn three_way() {
    let o = Rep::new();
    o.m.update(doc_with(&["a"], &["x".to_string()], "t")).unwrap();
    o.m.commit(None).unwrap();
    let mut reps: Vec<Rep> = Vec::new();
    for e in ["b", "c", "d"] {
        let mut r = Rep::new();
        r.pull(&o);
        r.m.update(doc_with(&["a", e], &["x".to_string(), "y".to_string()], "t")).unwrap();
        r.m.commit(None).unwrap().expect("block");
        reps.push(r);
    }
    sym::hash_order(0);
    let mut r0 = Rep::new();
    r0.pull(&o);
    for r in &reps {
        r0.pull(r);
    }
    let expected = state(&r0.m);
    sym::hash_order(1);
    let mut t = Rep::new();
    t.pull(&o);
    let mut idx = vec![0usize, 1, 2];
    while !idx.is_empty() {
        let i = idx.remove(sym::choose(idx.len()));
        t.pull(&reps[i]);
    }
    let st = state(&t.m);
    let re = state(&t.reopen());
    sym::hash_order(0);
    if st != expected {
        sym::debug_str("expected", &expected);
        sym::debug_str("got     ", &st);
    }
    assert!(st == expected, "the document depends on the order in which three concurrent commits were learnt or on hash order");
    assert!(re == expected, "a reopened replica shows a different document for a three-way array conflict");
    // an edit + commit freezes the merged order (automatic resolution): still the same elements in the same order
    let before = doc_text(&t.m);
    let mut d = t.m.read(None).unwrap();
    d.insert("n".to_string(), Value::from(1));
    t.m.update(d).unwrap();
    t.m.commit(None).unwrap().expect("block");
    let after = doc_text(&t.m);
    assert!(after.replace("\"n\":1,", "").replace(",\"n\":1", "") == before, "commit with automatic resolution changed the three-way merged array");
    assert!(doc_text(&t.reopen()) == after, "reopened replica differs after the automatic resolution");
    sym::reach(1);
}

/// C01: two replicas concurrently submit documents that may create the same new objects with the same content
/// (identical revisions appear in two different blocks); after exchange every route gives the same state.
/// params: [k orders]
pub fn concurrent_creations() {
    let k = sym::param(0) as usize;
    let (mut a, mut b) = base_pair(doc_with(&["a", "b"], &["x".to_string(), "x".to_string()], "t"));
    a.m.update(any_doc(k, 0)).expect("update a");
    a.m.commit(None).expect("commit a");
    b.m.update(any_doc(k, 0)).expect("update b");
    b.m.commit(None).expect("commit b");
    let a0 = a.snapshot();
    a.pull(&b);
    b.pull(&a0);
    a.pull(&b);
    assert!(same_state(&a.m, &b.m), "replicas holding the same blocks expose different states");
    assert!(same_state(&a.reopen(), &a.m), "reload differs from the incrementally built state");
    assert!(same_state(&b.reopen(), &a.m), "reload of the other storage differs");
    // every object that is visible has a readable value
    for id in a.m.get_all_objects() {
        assert!(a.m.get_value(&id, None).is_ok(), "a visible object has no readable value");
    }
    sym::reach(1);
}
