//! C19: revision identifiers are canonical (construction, print/parse, order, equality, hash).
use crate::sym;
use melda::verif::utils::{digest_object, digest_string};
use melda::verif::Revision;
use std::cmp::Ordering;
use std::hash::{Hash, Hasher};

pub const HEX: usize = 0;

pub const ALNUM: usize = 6;

/// digest of a revision: symbolic lower-case alphanumeric text of bounded length; the reserved one-letter
/// digests "d", "r", "e" are among its values and are singled out by solver-decided branches
fn any_digest(maxlen: usize) -> String {
    sym::string(ALNUM, 1, maxlen)
}

/// a revision the system can produce: creation, then `depth` derivation steps
pub fn any_revision(depth: usize, maxlen: usize) -> Revision {
    let mut r = Revision::new(1u32, any_digest(maxlen), None);
    for _ in 0..depth {
        let parent_text = r.to_string();
        r = derive(&r, maxlen);
        // the identifier is a pure function of (content digest, parent identifier): index = parent index + 1 and
        // the tail is the first 7 hex characters of the digest of the parent's identifier text
        let expected_tail = digest_string(&parent_text)[..7].to_string();
        let text = r.to_string();
        assert!(text.ends_with(&format!("_{}", expected_tail)), "tail is not derived from the parent identifier");
        assert!(text.starts_with(&format!("{}-", Revision::from(&parent_text).unwrap().index() + 1)), "index is not parent index + 1");
    }
    r
}

fn derive(r0: &Revision, maxlen: usize) -> Revision {
    let mut r = r0.clone();
    {
        match sym::choose(4) {
            0 => r = Revision::new_updated(any_digest(maxlen), &r),
            1 => r = Revision::new_deleted(&r),
            2 => r = Revision::new_resolved(&r),
            _ => {
                // the loader's construction (load_raw_delta / replay_stage)
                let d = any_digest(maxlen);
                r = Revision::new(r.index() + 1, d, Some(&r));
            }
        }
    }
    r
}

/// a revision with an arbitrary index, as rebuilt from block text by `Revision::from`
pub fn any_parsed_revision(maxlen: usize, wide: bool) -> Revision {
    let idx = if wide { sym::range(2, 4294967294) } else { sym::range(2, 1200) };
    let d = any_digest(maxlen);
    let t = sym::string(HEX, 7, 7);
    let s = format!("{}-{}_{}", idx, d, t);
    Revision::from(&s).unwrap()
}

/// depth < 0: parsed revision with symbolic index
fn pick(depth: i64, maxlen: usize) -> Revision {
    if depth >= 0 {
        any_revision(depth as usize, maxlen)
    } else {
        any_parsed_revision(maxlen, depth == -1)
    }
}

struct Rec(Vec<u8>);
impl Hasher for Rec {
    fn finish(&self) -> u64 {
        0
    }
    fn write(&mut self, bytes: &[u8]) {
        self.0.extend_from_slice(bytes);
        self.0.push(0xfe);
    }
}

/// the stated rule: resolution markers lowest, then longer history first, then byte-wise text
fn spec_cmp(a: &Revision, b: &Revision) -> Ordering {
    let (ra, rb) = (a.digest() == "r", b.digest() == "r");
    if ra != rb {
        return if ra { Ordering::Less } else { Ordering::Greater };
    }
    if !ra && a.index() != b.index() {
        return if a.index() < b.index() { Ordering::Less } else { Ordering::Greater };
    }
    a.to_string().as_bytes().cmp(b.to_string().as_bytes())
}

/// params: [depth_a, depth_b, maxlen]
pub fn order_pair() {
    let maxlen = sym::param(2) as usize;
    let a = pick(sym::param(0), maxlen);
    let b = pick(sym::param(1), maxlen);
    let ab = a.cmp(&b);
    let ba = b.cmp(&a);
    sym::observe_i64(ab as i64);
    sym::observe_str(&a.to_string());
    sym::observe_str(&b.to_string());
    // antisymmetry / totality
    assert!(ab == ba.reverse(), "cmp is not antisymmetric");
    // consistency with equality
    assert!((ab == Ordering::Equal) == (a == b), "cmp == Equal differs from ==");
    assert!((a == b) == (a.to_string() == b.to_string()), "== differs from identifier text equality");
    assert!((a != b) == !(a == b), "!= is not the negation of ==");
    // the order is the stated rule
    assert!(ab == spec_cmp(&a, &b), "order differs from the stated rule");
    assert!(a.partial_cmp(&b) == Some(ab), "partial_cmp differs from cmp");
    assert!((a < b) == (ab == Ordering::Less) && (a > b) == (ab == Ordering::Greater), "operators differ from cmp");
    // equal revisions feed the hasher identically
    if a == b {
        let mut ha = Rec(Vec::new());
        let mut hb = Rec(Vec::new());
        a.hash(&mut ha);
        b.hash(&mut hb);
        assert!(ha.0 == hb.0, "equal revisions hash differently");
    }
    sym::reach(1);
}

/// params: [depth_a, depth_b, depth_c, maxlen]
pub fn order_triple() {
    let maxlen = sym::param(3) as usize;
    let a = pick(sym::param(0), maxlen);
    let b = pick(sym::param(1), maxlen);
    let c = pick(sym::param(2), maxlen);
    let ab = a.cmp(&b);
    let bc = b.cmp(&c);
    let ac = a.cmp(&c);
    sym::observe_i64(ab as i64);
    sym::observe_i64(bc as i64);
    sym::observe_i64(ac as i64);
    if ab != Ordering::Greater && bc != Ordering::Greater {
        assert!(ac != Ordering::Greater, "cmp is not transitive");
        if ab == Ordering::Less || bc == Ordering::Less {
            assert!(ac == Ordering::Less, "cmp is not transitive (strict)");
        }
    }
    sym::reach(1);
}

/// params: [depth, maxlen]: print/parse round trip and purity of construction
pub fn print_parse() {
    let depth = sym::param(0) as usize;
    let maxlen = sym::param(1) as usize;
    let r = any_revision(depth, maxlen);
    let s = r.to_string();
    sym::observe_str(&s);
    let p = Revision::from(&s).expect("printed identifier does not parse");
    assert!(p == r, "parse(print(r)) != r");
    assert!(p.to_string() == s, "print(parse(s)) != s");
    assert!(p.index() == r.index() && p.digest() == r.digest(), "fields changed by the round trip");
    // a second, independent construction from the same (digest, parent identifier) is the same revision
    if r.index() > 1 {
        // rebuild through the loader's path from the printed parent-less form is not possible; instead
        // check determinism of the derivation itself
        let d = r.digest().clone();
        let parent = any_revision(depth, maxlen);
        let x = Revision::new_updated(d.clone(), &parent);
        let parent2 = Revision::from(&parent.to_string()).unwrap();
        let y = Revision::new(parent2.index() + 1, d, Some(&parent2));
        assert!(x == y && x.to_string() == y.to_string(), "same edit on same version gives different revisions");
    }
    sym::reach(1);
}

/// digest_object depends only on content, not on insertion order
pub fn digest_pure() {
    let k1 = sym::string(1, 1, 2);
    let k2 = sym::string(1, 1, 2);
    sym::assume(k1 != k2);
    let v1 = serde_json::Value::from(sym::range(0, 99));
    let v2 = serde_json::Value::from(sym::string(4, 0, 2));
    let mut a = serde_json::Map::new();
    a.insert(k1.clone(), v1.clone());
    a.insert(k2.clone(), v2.clone());
    let mut b = serde_json::Map::new();
    b.insert(k2, v2);
    b.insert(k1, v1);
    let da = digest_object(&a).unwrap();
    let db = digest_object(&b).unwrap();
    assert!(da == db, "digest depends on insertion order");
    assert!(da == digest_string(&serde_json::to_string(&a).unwrap()), "digest is not the hash of the canonical text");
    sym::reach(1);
}
