//! C03 (Melda level): a successful commit is durable and reopens to the same state.
use crate::h_melda::*;
use crate::sym;

/// params: [k orders, staged updates (1..3), commits before (0/1)]
/// Objects with identical content share one stored payload: creating two of them and removing one again before the
/// commit must leave the other one durable.
pub fn shared_payload() {
    let a = Rep::new();
    a.m.update(doc_with(&["a"], &["x".to_string()], "t")).expect("update");
    if sym::any_bool() {
        a.m.commit(None).expect("commit");
    }
    let v = val();
    let mut o = serde_json::Map::new();
    o.insert("v".to_string(), serde_json::Value::from(v));
    a.m.create_object("p", o.clone()).expect("create p");
    a.m.create_object("q", o.clone()).expect("create q");
    let _ = a.m.remove_object(if sym::any_bool() { "p" } else { "q" });
    a.m.commit(None).expect("commit").expect("block");
    assert!(same_state(&a.reopen(), &a.m), "reopened replica differs from the committing replica");
    for id in a.m.get_all_objects() {
        assert!(a.reopen().get_value(&id, None).is_ok(), "a committed object is not readable after reopening");
    }
    sym::reach(1);
}

pub fn commit_reopen() {
    let k = sym::param(0) as usize;
    let n = sym::param(1) as usize;
    let before = sym::param(2) != 0;
    let a = Rep::new();
    if before {
        a.m.update(any_doc(k, 0)).expect("update");
        a.m.commit(None).expect("commit");
    }
    for i in 0..n {
        // the last staged document carries a symbolic value
        a.m.update(any_doc(k, if i + 1 == n { 1 } else { 0 })).expect("update");
    }
    let staged = a.m.has_staging();
    let c = a.m.commit(None).expect("commit");
    assert!(c.is_some() == staged, "commit result does not match has_staging");
    assert!(same_state(&a.reopen(), &a.m), "reopened replica differs from the committing replica");
    // and again after one more edit + commit on top
    a.m.update(any_doc(k, 0)).expect("update");
    a.m.commit(None).expect("commit");
    assert!(same_state(&a.reopen(), &a.m), "reopened replica differs after a further commit");
    sym::reach(1);
}
