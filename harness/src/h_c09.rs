//! C09: commit and meld are atomic with respect to crashes and write failures.
use crate::h_melda::*;
use crate::sym;
use anyhow::{anyhow, Result};
use melda::adapter::Adapter;
use melda::melda::Melda;
use melda::memoryadapter::MemoryAdapter;
use std::any::Any;
use std::sync::{Arc, Mutex, RwLock};

/// what the fault-injecting backend records / is told to do
pub struct FaultState {
    /// every successful first write of a key, in order (item writes are atomic: fully present or absent)
    pub writes: Vec<(String, Vec<u8>)>,
    /// number of write_object calls so far
    pub calls: usize,
    /// indices of write_object calls that must fail
    pub fail: Vec<usize>,
}

pub struct FaultAdapter {
    inner: MemoryAdapter,
    st: Arc<Mutex<FaultState>>,
}

impl Adapter for FaultAdapter {
    fn as_any(&self) -> &dyn Any {
        self
    }
    fn as_any_mut(&mut self) -> &mut dyn Any {
        self
    }
    fn read_object(&self, key: &str, offset: usize, length: usize) -> Result<Vec<u8>> {
        self.inner.read_object(key, offset, length)
    }
    fn write_object(&self, key: &str, data: &[u8]) -> Result<()> {
        let mut st = self.st.lock().unwrap();
        let n = st.calls;
        st.calls += 1;
        if st.fail.contains(&n) {
            return Err(anyhow!("injected write failure"));
        }
        let is_new = self.inner.read_object(key, 0, 0).is_err();
        self.inner.write_object(key, data)?;
        if is_new {
            st.writes.push((key.to_string(), data.to_vec()));
        }
        Ok(())
    }
    fn list_objects(&self, ext: &str) -> Result<Vec<String>> {
        self.inner.list_objects(ext)
    }
}

pub fn fault_rep() -> (Rep, Arc<Mutex<FaultState>>) {
    let st = Arc::new(Mutex::new(FaultState { writes: Vec::new(), calls: 0, fail: Vec::new() }));
    let ad: Ad = Arc::new(RwLock::new(Box::new(FaultAdapter { inner: MemoryAdapter::new(), st: st.clone() })));
    let m = Melda::new(ad.clone()).expect("Melda::new");
    (Rep { m, ad }, st)
}

/// a plain storage holding the first `n` successful writes
fn storage_prefix(st: &Arc<Mutex<FaultState>>, n: usize) -> Ad {
    let ad = new_adapter();
    {
        let w = ad.write().unwrap();
        for (k, v) in st.lock().unwrap().writes.iter().take(n) {
            w.write_object(k, v).unwrap();
        }
    }
    ad
}

/// state without the head identifiers (a retried commit may legitimately produce a different block)
fn visible(m: &Melda) -> String {
    let mut objs: Vec<String> = Vec::new();
    for id in m.get_all_objects() {
        objs.push(format!("{}={:?}/{}", id, m.get_value(&id, None).ok(), m.get_conflicting(&id).map(|c| c.len()).unwrap_or(99)));
    }
    format!("{} | {}", doc_text(m), objs.join(";"))
}

/// params: [k orders, number of injected failures (0..2)]
pub fn commit_faults() {
    let k = sym::param(0) as usize;
    let nfail = sym::param(1) as usize;
    let (mut a, st) = fault_rep();
    a.m.update(doc_with(&["a", "b"], &["x".to_string(), "y".to_string()], "t")).unwrap();
    a.m.commit(None).expect("first commit").expect("block");
    let before = visible(&a.m);
    let w0 = st.lock().unwrap().writes.len();
    let c0 = st.lock().unwrap().calls;
    let d = any_doc(k, 1);
    // an undisturbed twin gives the expected durable result
    let twin = Rep::new();
    twin.m.update(doc_with(&["a", "b"], &["x".to_string(), "y".to_string()], "t")).unwrap();
    twin.m.commit(None).unwrap();
    twin.m.update(d.clone()).unwrap();
    twin.m.commit(None).unwrap();
    let after = visible(&twin.reopen());
    a.m.update(d.clone()).unwrap();
    if !a.m.has_staging() {
        sym::reach(2);
        return;
    }
    let staged_view = visible(&a.m);
    // failures among the (at most 2) writes of this commit, possibly the same write on the retry
    {
        let mut s = st.lock().unwrap();
        for _ in 0..nfail {
            let f = c0 + sym::choose(3);
            if !s.fail.contains(&f) {
                s.fail.push(f);
            }
        }
    }
    let mut attempts = 0;
    loop {
        attempts += 1;
        assert!(attempts <= 4, "commit keeps failing although no further failure is injected");
        match a.m.commit(None) {
            Ok(c) => {
                assert!(c.is_some(), "commit returned no block although changes were staged");
                break;
            }
            Err(_) => {
                assert!(a.m.has_staging(), "staged changes lost by a failed commit");
                assert!(visible(&a.m) == staged_view, "a failed commit changed what the replica shows");
                // the application may also abandon the failed commit and submit the same edit again from scratch
                if sym::any_bool() {
                    a.m.unstage().expect("unstage after a failed commit");
                    assert!(visible(&a.m) == before, "unstage after a failed commit does not restore the committed state");
                    a.m.update(d.clone()).unwrap();
                    assert!(a.m.has_staging(), "re-submitting the edit after unstage staged nothing");
                    assert!(visible(&a.m) == staged_view, "re-submitted edit shows a different state");
                }
            }
        }
    }
    assert!(!a.m.has_staging(), "changes still staged after a successful commit");
    st.lock().unwrap().fail.clear();
    // durable result equals the uninterrupted commit
    let w1 = st.lock().unwrap().writes.len();
    assert!(visible(&Melda::new(storage_prefix(&st, w1)).expect("reopen")) == after, "retried commit is not durable like an uninterrupted commit");
    // and it can be transferred: a fresh replica melding from the committer sees the same result
    {
        let mut z = Rep::new();
        z.pull(&a);
        assert!(visible(&z.m) == after, "a replica melding from the committer does not see the retried commit");
    }
    // a block is never written before the pack it names
    {
        let s = st.lock().unwrap();
        let mut seen_delta = false;
        for (key, _) in s.writes.iter().skip(w0) {
            if key.ends_with(".delta") {
                seen_delta = true;
            } else if key.ends_with(".pack") {
                assert!(!seen_delta, "a block reached storage before a pack written by the same commit");
            }
        }
    }
    // a crash at any write boundary shows the complete previous or the complete new state
    for n in w0..=w1 {
        let v = visible(&Melda::new(storage_prefix(&st, n)).expect("reopen at write boundary"));
        assert!(v == before || v == after, "a crash between two writes exposes a mixed state");
    }
    sym::reach(1);
}

/// a meld that is interrupted (some of its writes fail) leaves a storage on which only complete commits are
/// visible; repeating the meld converges. params: [k orders]
pub fn meld_faults() {
    let k = sym::param(0) as usize;
    let a = Rep::new();
    a.m.update(doc_with(&["a", "b"], &["x".to_string(), "y".to_string()], "t")).unwrap();
    a.m.commit(None).unwrap();
    let (mut b, st) = fault_rep();
    b.pull(&a);
    let s0 = visible(&b.m);
    a.m.update(any_doc(k, 0)).unwrap();
    a.m.commit(None).unwrap();
    let s1 = visible(&a.m);
    a.m.update(doc_with(&["c", "a", "b"], &["z".to_string(), val(), "y".to_string()], "u")).unwrap();
    a.m.commit(None).unwrap();
    let s2 = visible(&a.m);
    let c0 = st.lock().unwrap().calls;
    let w0 = st.lock().unwrap().writes.len();
    {
        let mut s = st.lock().unwrap();
        let f1 = c0 + sym::choose(5);
        s.fail.push(f1);
        if sym::any_bool() {
            let f2 = c0 + sym::choose(5);
            s.fail.push(f2);
        }
    }
    b.m.meld(&a.m).expect("meld");
    b.m.refresh().expect("refresh after interrupted meld");
    let v = visible(&b.m);
    assert!(v == s0 || v == s1 || v == s2, "an interrupted meld exposes a state that no commit produced");
    assert!(visible(&b.reopen()) == v, "refresh and reload disagree after an interrupted meld");
    // every prefix of the copied items is safe as well
    let w1 = st.lock().unwrap().writes.len();
    for n in w0..=w1 {
        let p = visible(&Melda::new(storage_prefix(&st, n)).expect("reopen at write boundary"));
        assert!(p == s0 || p == s1 || p == s2, "a crash during meld exposes a mixed state");
    }
    // repeating the meld (no further failure) converges
    st.lock().unwrap().fail.clear();
    b.m.meld(&a.m).expect("meld again");
    b.m.refresh().expect("refresh");
    assert!(visible(&b.m) == s2, "repeating an interrupted meld does not converge");
    sym::reach(1);
}
