//! C11 (storage is content-addressed, append-only, byte-identical everywhere) and C17 (write-once
//! key/value contract of the memory backend).
use crate::h_melda::*;
use crate::sym;
use melda::adapter::Adapter;
use melda::melda::DeltaId;
use melda::memoryadapter::MemoryAdapter;
use melda::verif::utils::digest_bytes;
use serde_json::{json, Value};

pub const PRINTABLE: usize = 4;
pub const WORD: usize = 2;
pub const BYTE: usize = 5;

fn dump(ad: &Ad) -> Vec<(String, Vec<u8>)> {
    let a = ad.read().unwrap();
    a.list_objects("").unwrap().into_iter().map(|k| { let v = a.read_object(&k, 0, 0).unwrap(); (k, v) }).collect()
}

/// every item is named by the digest of its bytes; blocks carry index = 1 + highest parent index
fn check_names(items: &[(String, Vec<u8>)]) {
    for (k, v) in items {
        if let Some(stem) = k.strip_suffix(".pack") {
            assert!(digest_bytes(v) == stem, "pack name is not the digest of its bytes");
        } else if let Some(stem) = k.strip_suffix(".delta") {
            let id = DeltaId::from(stem).expect("block name does not parse");
            assert!(id.to_string() == stem, "block name is not canonical");
            assert!(*id.digest() == digest_bytes(v), "block name does not carry the digest of its bytes");
            let j: Value = serde_json::from_slice(v).expect("block is not JSON");
            let mut maxp = 0u32;
            if let Some(ps) = j.get("p").and_then(|p| p.as_array()) {
                for p in ps {
                    let pid = DeltaId::from(p.as_str().unwrap()).unwrap();
                    if pid.index() > maxp {
                        maxp = pid.index();
                    }
                }
            }
            assert!(id.index() == maxp + 1, "block index is not one greater than its highest parent");
        } else {
            assert!(false, "unexpected item kind in storage");
        }
    }
}

/// storage only grows and existing items keep their bytes
fn check_grows(before: &[(String, Vec<u8>)], after: &[(String, Vec<u8>)]) {
    for (k, v) in before {
        let now = after.iter().find(|(k2, _)| k2 == k).expect("an item was removed from storage");
        assert!(now.1 == *v, "an existing item was modified");
    }
}

/// params: [k orders, symbolic values in the second document, 1 = stop after the first meld]
pub fn content_addressed() {
    let k = sym::param(0) as usize;
    let a = Rep::new();
    let mut b = Rep::new();
    let s0 = dump(&a.ad);
    a.m.update(doc_with(&["a"], &["w".to_string()], "s")).unwrap();
    a.m.update(doc_with(&["a", "b"], &["x".to_string(), "y".to_string()], "t")).unwrap();
    let info = obj(json!({"author": "é√", "msg": sym::string(PRINTABLE, 1, 1), "nested": {"n": [1, -2, {"k": "q\"\\"}], "e": {}}, "i": 1234567890123i64}));
    a.m.commit(Some(info)).unwrap();
    let first = a.m.get_anchors();
    let s1 = dump(&a.ad);
    check_grows(&s0, &s1);
    check_names(&s1);
    a.m.update(any_doc(k, sym::param(1) as usize)).unwrap();
    a.m.commit(Some(serde_json::Map::new())).unwrap();
    let s2 = dump(&a.ad);
    check_grows(&s1, &s2);
    check_names(&s2);
    // a commit that stores no new content (only a deletion): a block without pack
    // (if the second document already dropped b, nothing is staged and no block is written)
    a.m.delete_object("b").unwrap();
    let staged = a.m.has_staging();
    assert!(a.m.commit(None).unwrap().is_some() == staged, "commit result does not match has_staging");
    let s2b = dump(&a.ad);
    check_grows(&s2, &s2b);
    check_names(&s2b);
    let s2 = s2b;
    // meld copies items byte for byte
    b.pull(&a);
    let t1 = dump(&b.ad);
    check_names(&t1);
    for (key, v) in &s2 {
        let other = t1.iter().find(|(k2, _)| k2 == key).expect("an item was not copied by meld");
        assert!(other.1 == *v, "an item has different bytes on the replica that received it");
    }
    if sym::param(2) != 0 {
        // short variant (used with deviating hash iteration orders): ends after the first meld
        sym::reach(1);
        return;
    }
    // relay: a third replica melds from b, which holds a's blocks only as loaded from storage
    {
        let mut c = Rep::new();
        c.pull(&b);
        let u = dump(&c.ad);
        check_names(&u);
        assert!(u == t1, "items relayed through a second replica are not byte-identical");
        // and from a reopened source
        let mut c2 = Rep::new();
        let ra = Rep { m: a.reopen(), ad: a.ad.clone() };
        c2.pull(&ra);
        assert!(dump(&c2.ad) == s2, "items melded from a reopened replica are not byte-identical");
    }
    // the receiving replica commits on top and sends back
    b.m.update(doc_with(&["b"], &["z".to_string()], "u")).unwrap();
    b.m.commit(None).unwrap();
    let t2 = dump(&b.ad);
    check_grows(&t1, &t2);
    check_names(&t2);
    let mut a = a;
    a.pull(&b);
    let s3 = dump(&a.ad);
    check_grows(&s2, &s3);
    check_names(&s3);
    assert!(s3 == t2, "replicas holding the same history do not hold identical items");
    // reads, refreshes, reloads, stage / unstage write nothing
    a.m.update(any_doc(k, 0)).unwrap();
    a.m.unstage().unwrap();
    a.m.refresh().unwrap();
    a.m.reload().unwrap();
    let _ = state(&a.m);
    assert!(dump(&a.ad) == s3, "an operation other than commit / meld changed the storage");
    // a commit made after travelling back to the first block (later blocks stay loaded but unapplied) follows the same rules
    a.m.reload_until(&first).expect("reload_until the first block");
    a.m.update(doc_with(&["a", "c"], &["x".to_string(), "q".to_string()], "v")).unwrap();
    a.m.commit(None).unwrap().expect("commit after time travel produced no block");
    let s4 = dump(&a.ad);
    check_grows(&s3, &s4);
    check_names(&s4);
    sym::reach(1);
}

/// A block with an update record whose digest equals its parent's (two identical consecutive edit scripts on one
/// array) is copied byte for byte by meld, directly and through a relay.
pub fn identical_scripts_meld() {
    let a = Rep::new();
    let k = 3 + sym::choose(2);
    let all = ["a", "b", "c", "d", "e"];
    for i in 0..3 {
        let ids: Vec<&str> = all[i..k + 1].to_vec();
        let vals: Vec<String> = ids.iter().map(|_| "x".to_string()).collect();
        // the removed elements live on in a second array, so only the first array's descriptor changes the same way twice
        let mut d = doc_with(&ids, &vals, "t");
        d.insert("more♭".to_string(), Value::from(all[..i].iter().map(|id| json!({"_id": *id, "v": "x"})).collect::<Vec<Value>>()));
        a.m.update(d).unwrap();
        a.m.commit(None).unwrap().expect("block");
    }
    let s = dump(&a.ad);
    check_names(&s);
    let mut b = Rep::new();
    b.pull(&a);
    let t = dump(&b.ad);
    check_names(&t);
    assert!(s == t, "melded items are not byte-identical");
    assert!(doc_text(&b.m) == doc_text(&a.m), "melded replica shows a different document");
    let mut c = Rep::new();
    c.pull(&b);
    assert!(dump(&c.ad) == s, "relayed items are not byte-identical");
    sym::reach(1);
}

/// reference model of the write-once contract
pub struct Model(pub Vec<(String, Vec<u8>)>);

impl Model {
    pub fn write(&mut self, k: &str, v: &[u8]) {
        if !self.0.iter().any(|(k2, _)| k2 == k) {
            self.0.push((k.to_string(), v.to_vec()));
        }
    }
    pub fn get(&self, k: &str) -> Option<&Vec<u8>> {
        self.0.iter().find(|(k2, _)| k2 == k).map(|(_, v)| v)
    }
    pub fn list(&self, ext: &str) -> Vec<String> {
        let mut out: Vec<String> = self.0.iter().filter(|(k, _)| k.ends_with(ext)).map(|(k, _)| k[..k.len() - ext.len()].to_string()).collect();
        out.sort();
        out
    }
}

fn any_key() -> String {
    let stem = sym::string(WORD, 1, 2);
    match sym::choose(4) {
        0 => stem,
        1 => stem + ".delta",
        2 => stem + ".pack",
        _ => stem + ".delta.delta",
    }
}

/// params: [number of writes, through the DynAdapter wrapper (0/1)]. C17 (memory backend)
pub fn adapter_contract() {
    let n = sym::param(0) as usize;
    let dynamic = sym::param(1) != 0;
    let mem = MemoryAdapter::new();
    let dynad: Ad = new_adapter();
    let ad: &dyn Adapter = if dynamic { &dynad } else { &mem };
    let mut model = Model(Vec::new());
    let mut keys: Vec<String> = Vec::new();
    for i in 0..n {
        // the last write may target an existing key again (write-once: it must not change anything)
        let key = if i > 0 && sym::any_bool() { keys[0].clone() } else { any_key() };
        let val = sym::string(BYTE_ASCII, 0, 3);
        ad.write_object(&key, val.as_bytes()).expect("write_object");
        model.write(&key, val.as_bytes());
        keys.push(key);
    }
    // whole reads return the bytes of the first write
    for key in &keys {
        let got = ad.read_object(key, 0, 0).expect("read_object of a written key");
        assert!(Some(&got) == model.get(key), "read does not return the bytes of the first write");
    }
    // ranged read: any non-empty in-range slice; out of range is an error
    if let Some(key) = keys.first() {
        let full = model.get(key).unwrap().clone();
        let off = sym::range(0, 4) as usize;
        let len = sym::range(1, 4) as usize;
        match ad.read_object(key, off, len) {
            Ok(got) => {
                assert!(off + len <= full.len(), "out-of-range slice read succeeded");
                assert!(got == full[off..off + len], "ranged read returns wrong bytes");
            }
            Err(_) => assert!(off + len > full.len(), "in-range slice read failed"),
        }
    }
    assert!(ad.read_object("missing.key", 0, 0).is_err(), "reading an unknown key succeeded");
    // listing by suffix: exactly the matching keys, suffix removed once
    for ext in ["", ".delta", ".pack"] {
        let mut got = ad.list_objects(ext).expect("list_objects");
        got.sort();
        assert!(got == model.list(ext), "listing by suffix differs from the contract");
    }
    sym::reach(1);
}

pub const BYTE_ASCII: usize = 4;
