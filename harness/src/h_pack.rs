//! C03 / C11 kernel: the pack writer (DataStorage::pack) and the pack re-indexer used on reload
//! (DataStorage::reload -> try_load_pack -> parse_and_apply_pack) agree for every JSON content.
use crate::sym;
use melda::adapter::Adapter;
use melda::memoryadapter::MemoryAdapter;
use melda::verif::utils::{digest_bytes, digest_string};
use melda::verif::DataStorage;
use serde_json::{json, Map, Value};
use std::sync::{Arc, RwLock};

/// character class 7: JSON structural characters, quote, backslash and a letter
pub const JSONISH: usize = 7;

fn text(maxlen: usize) -> String {
    sym::string(JSONISH, 0, maxlen)
}

/// a JSON object of one of several skeletons whose keys / string leaves are symbolic
fn any_object(maxlen: usize) -> Value {
    let mut m = Map::new();
    match sym::choose(5) {
        0 => {
            m.insert("k".to_string(), Value::from(text(maxlen)));
        }
        1 => {
            m.insert(text(maxlen), Value::from(1));
        }
        2 => {
            let mut inner = Map::new();
            inner.insert("n".to_string(), Value::from(text(maxlen)));
            m.insert("o".to_string(), Value::from(inner));
        }
        3 => {
            m.insert("A".to_string(), json!([text(maxlen), "é√"]));
        }
        _ => {
            m.insert("a".to_string(), json!([["i", 0, [text(maxlen)]], ["d", 1, 0]]));
        }
    }
    Value::from(m)
}

/// params: [number of objects, max string length]
pub fn pack_roundtrip() {
    let k = sym::param(0) as usize;
    let maxlen = sym::param(1) as usize;
    let adapter: Arc<RwLock<Box<dyn Adapter>>> = Arc::new(RwLock::new(Box::new(MemoryAdapter::new())));
    let mut ds = DataStorage::new(adapter.clone());
    let mut vals: Vec<(String, Value)> = Vec::new();
    for _ in 0..k {
        let v = any_object(maxlen);
        let t = serde_json::to_string(&v).unwrap();
        sym::observe_str(&t);
        let d = digest_string(&t);
        ds.write_raw_value(&d, v.clone()).unwrap();
        vals.push((d, v));
    }
    let pid = ds.pack().expect("pack failed");
    assert!(pid.is_some() == (k > 0), "pack id reported wrongly");
    assert!(!ds.has_staging(), "data stage not cleared by a successful pack");
    // the writer's own index serves every value
    for (d, v) in &vals {
        let r = ds.read_raw_value(d).expect("value not readable from the writing storage after pack");
        assert!(r == *v, "writer index returns a different value");
    }
    // content addressing of the pack itself (C11)
    if let Some(pid) = &pid {
        let key = pid.clone() + ".pack";
        let bytes = adapter.read().unwrap().read_object(&key, 0, 0).expect("pack not stored under its name");
        assert!(digest_bytes(&bytes) == *pid, "pack name is not the digest of its bytes");
        assert!(adapter.read().unwrap().list_objects(".pack").unwrap() == vec![pid.clone()], "unexpected pack listing");
    }
    // a freshly opened storage re-indexes the pack
    let mut ds2 = DataStorage::new(adapter.clone());
    let packs = ds2.reload().expect("reload failed");
    assert!(packs.len() == if k > 0 { 1 } else { 0 }, "reload lists a wrong number of packs");
    for (d, v) in &vals {
        let r = ds2.read_raw_value(d).expect("committed value not readable after reopening the storage");
        assert!(r == *v, "reopened storage returns a different value");
    }
    // incremental refresh of a third storage gives the same index
    let mut ds3 = DataStorage::new(adapter.clone());
    let newp = ds3.refresh().expect("refresh failed");
    assert!(newp.len() == packs.len(), "refresh and reload disagree on packs");
    for (d, v) in &vals {
        assert!(ds3.read_raw_value(d).ok().as_ref() == Some(v), "refreshed storage returns a different value");
    }
    assert!(ds3.refresh().unwrap().is_empty(), "second refresh reports packs again");
    sym::reach(1);
}
