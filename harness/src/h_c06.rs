//! C06 / kernel: utils::merge_arrays on all pairs of duplicate-free sequences.
use crate::sym;
use melda::verif::utils::merge_arrays;
use serde_json::Value;

fn distinct_atoms(n: usize) -> Vec<Value> {
    let mut v: Vec<Value> = Vec::new();
    for _ in 0..n {
        let a = sym::atom();
        for b in &v {
            sym::assume(*b != a);
        }
        v.push(a);
    }
    v
}

fn pos(v: &[Value], x: &Value) -> Option<usize> {
    v.iter().position(|e| e == x)
}

/// params: [len(m), len(n)]
pub fn merge_pair() {
    let lm = sym::param(0) as usize;
    let ln = sym::param(1) as usize;
    let m = distinct_atoms(lm);
    let mut n = distinct_atoms(ln);
    let n0 = n.clone();
    merge_arrays(&m, &mut n);
    let r = &n;
    for x in r.iter() {
        sym::observe_i64(x.as_i64().unwrap());
    }
    // nothing lost
    for x in &m {
        assert!(pos(r, x).is_some(), "element of m lost");
    }
    for x in &n0 {
        assert!(pos(r, x).is_some(), "element of n lost");
    }
    // nothing duplicated, nothing invented
    for (i, x) in r.iter().enumerate() {
        for y in &r[i + 1..] {
            assert!(x != y, "element duplicated");
        }
        assert!(pos(&m, x).is_some() || pos(&n0, x).is_some(), "element invented");
    }
    // n keeps its relative order
    for i in 0..n0.len() {
        for j in i + 1..n0.len() {
            assert!(pos(r, &n0[i]).unwrap() < pos(r, &n0[j]).unwrap(), "order of n changed");
        }
    }
    // if the common elements have the same relative order in m and n, m keeps its order too
    let mut agree = true;
    for i in 0..m.len() {
        for j in i + 1..m.len() {
            if let (Some(a), Some(b)) = (pos(&n0, &m[i]), pos(&n0, &m[j])) {
                if a > b {
                    agree = false;
                }
            }
        }
    }
    if agree {
        for i in 0..m.len() {
            for j in i + 1..m.len() {
                assert!(pos(r, &m[i]).unwrap() < pos(r, &m[j]).unwrap(), "order of m changed without disagreement");
            }
        }
    }
    // identities
    if m.is_empty() {
        assert!(*r == n0, "merge with empty m changed n");
    }
    if n0.is_empty() {
        assert!(*r == m, "merge into empty n is not m");
    }
    sym::reach(1);
}
